// C19 — destroying a Lexicon frees all its memory; live use never touches dead storage.
// Oracle: the engine's allocation table (every operator new/delete of the path); natively LeakSanitizer/AddressSanitizer on replay.
#define VP_WITH_IO
#include "fingerprint.h"
#include "vpstream.h"
#ifndef C19_BUF_STEPS
#define C19_BUF_STEPS 4
#endif
#ifndef C19_REPS
#define C19_REPS 2
#endif
extern "C" void h_destroy(void) {
   unsigned total = zoo::count();
   vp_mark();
   for (int round = 0; round < 2; ++round) {                   // many Lexicons in one process: two in sequence on every path
      zoo::World* w = new zoo::World;
      unsigned which = round == 0 ? vp_pick(total) : 0;
      if (round == 0) vp_observe(1, which);
      zoo::Null_visitor nv;
      zoo::build(*w, which, nv);
      w->concrete = true;
      for (int r = 0; r < C19_REPS; ++r) zoo::build(*w, which, nv);
      // a second unit and a module with an implementation unit, destroyed before the Lexicon (the order the language prescribes)
      impl::Module* mod = new impl::Module(w->lx); mod->make_unit()->global_region()->declare_var(*w->N[0], *w->T[0]);
      delete mod;
      delete w;                                                  // ~World: helper objects, then the unit, then the Lexicon
   }
   vp_leakcheck();
   vp_done();
}
// the populated unit of the C07/C12 harnesses: scopes with redeclarations, nested regions, handlers, interned strings
extern "C" void h_destroy_populated(void) {
   vp_mark();
   {
      impl::Lexicon lx; impl::Translation_unit unit { lx };
      auto* reg = unit.global_region();
      const ipr::Name* N[3] = { &lx.get_identifier(u8"alpha"), &lx.get_identifier(u8"beta"), &lx.get_operator(u8"+") };
      const ipr::Type* T[3] = { &lx.int_type(), &lx.get_pointer(lx.char_type()), &lx.get_qualified(lx.const_qualifier(), lx.int_type()) };
      unsigned k = vp_pick(3);
      for (int i = 0; i < 6; ++i) reg->declare_var(*N[(i + k) % 3], *T[i % 3]);             // redeclarations included
      impl::Class* c = lx.make_class(*reg); c->declare_field(*N[0], *T[1]); c->declare_base(*T[0]);
      impl::Block* b = lx.make_block(*reg); b->new_handler(*N[1], *T[0]); b->add_stmt(*lx.make_expr_stmt(*lx.make_literal(*T[0], u8"12345678901234567890")));
      impl::Warehouse<ipr::Type> wh; wh.push_back(*T[0]); wh.push_back(*T[1]);
      auto& f = lx.get_function(lx.get_product(wh), *T[2]); reg->declare_fun(*N[2], f);
      {  // products and sums of short-lived warehouses of 0..2 elements (the Lexicon keeps its own copy): used after the warehouses are gone
         const ipr::Product* pr[3]; const ipr::Sum* sm[3];
         for (unsigned n = 0; n < 3; ++n) { auto* tmp = new impl::Warehouse<ipr::Type>; for (unsigned i = 0; i < n; ++i) tmp->push_back(*T[i]); pr[n] = &lx.get_product(*tmp); sm[n] = &lx.get_sum(*tmp); delete tmp; }
         for (unsigned n = 0; n < 3; ++n) {
            impl::Warehouse<ipr::Type> again; for (unsigned i = 0; i < n; ++i) again.push_back(*T[i]);
            vp_assert(pr[n]->size() == n && sm[n]->size() == n && &lx.get_product(again) == pr[n] && &lx.get_sum(again) == sm[n], 2);
            for (unsigned i = 0; i < n; ++i) vp_assert(&(*pr[n])[i] == T[i] && &(*sm[n])[i] == T[i], 3);
         }
         lx.get_function(*pr[0], *T[0]); lx.get_function(*pr[0], *T[0], *sm[0]);
         // requests that are refused (a warehouse with never-set slots, an empty qualifier set, an untyped alias) leave nothing allocated behind
         { impl::Warehouse<ipr::Type> gap(1 + vp_pick(2)); if (vp_flag()) gap.push_back(*T[1]);
           (void)vp_outcome([&] { (void)lx.get_product(gap); }); (void)vp_outcome([&] { (void)lx.get_sum(gap); }); }
         (void)vp_outcome([&] { (void)lx.get_qualified(ipr::Qualifiers{ }, *T[0]); });
         (void)vp_outcome([&] { (void)reg->scope.make_alias(*N[1], *lx.make_id_expr(*N[0])); });
      }
      impl::Enum* e = lx.make_enum(*reg, ipr::Enum::Kind::Scoped); for (int i = 0; i < 10; ++i) e->add_member(*N[i % 3]);
      lx.get_linkage(u8"Fortran"); lx.get_calling_convention(u8"stdcall"); lx.get_symbol(*N[0], *T[0]);
      // a word that does not fit in what is left of the 1 MiB string pool and is longer than the pool's header capacity: it gets a block of its own
      static char8_t big[1100000];
      const ipr::String& huge = lx.get_string(util::word_view(big, 1048570 + vp_pick(3)));
      vp_assert(huge.size() >= 1048570 && huge.characters()[huge.size() - 1] == u8'\0', 1);
      lx.make_literal(*T[0], huge);
      lx.make_general_substitution()->subst(*lx.make_mapping(*reg, Mapping_level{ 1 })->param(*N[0], *T[0]), lx.true_value());
   }
   vp_leakcheck();
   vp_done();
}
// a second life: Lexicon A (unit, zoo case, printing, decomposition, a module) lives and dies; then Lexicon B is used the same way and
// everything it hands out is read through every accessor (names of the unit's global namespace included) and printed.  Every access is
// checked against the allocation table, so anything B reaches that belonged to A is a use after free.  Registered twice: with an
// allocator that never reuses addresses (stale pointers stay dead) and with one that reuses freed blocks (stale address-keyed memos).
static void second_life(void) {
   unsigned total = zoo::count();
   std::ostringstream& osa = *new std::ostringstream; std::ostringstream& osb = *new std::ostringstream;       // harness-owned, outside the accounting window
   vp_mark();
   {
      zoo::World* a = new zoo::World; a->concrete = true; a->printable = true;
      Tracker ta; zoo::build(*a, 3, ta); a->reg = a->reg->make_subregion(); zoo::build(*a, total - 1, ta); ta.snapshot();
      const ipr::Translation_unit& ua = a->unit; Fingerprint f; fingerprint<ipr::Namespace>(&ua.global_namespace(), f); fingerprint<ipr::Name>(&ua.global_namespace().name(), f);
      { Printer pp { a->lx, osa }; vp_outcome([&] { pp << a->unit; }); }
      a->lx.decompose(a->lx.static_specifier() | a->lx.inline_specifier()); a->lx.decompose(a->lx.const_qualifier());
      for (auto sp : { u8"T", u8"i", u8"_", u8"ab", u8"int", u8"" }) { auto& id = a->lx.get_identifier(sp); a->lx.get_operator(sp); a->lx.get_linkage(sp); vp_assert(id.string().characters() == util::word_view(sp), 6); }
      impl::Module* mod = new impl::Module(a->lx); mod->make_unit(); delete mod;
      delete a;
   }
   zoo::World* b = new zoo::World; b->printable = true; b->concrete = true;      // the factory is symbolic, its operands are a deterministic choice
   unsigned which = vp_pick(total);
   vp_observe(1, which);
   Tracker tb; zoo::build(*b, which, tb); tb.snapshot();
   const ipr::Translation_unit& ub = b->unit;
   const ipr::Namespace& gns = ub.global_namespace();
   Fingerprint f; fingerprint<ipr::Namespace>(&gns, f); fingerprint<ipr::Name>(&gns.name(), f);
   auto id = util::view<ipr::Identifier>(gns.name());
   vp_assert(id != nullptr && id->string().size() == 0 && &gns.type() == &b->lx.namespace_type(), 2);        // unnamed, typed `namespace`
   vp_assert(&b->lx.get_identifier(u8"") == id, 3);
   { Printer pp { b->lx, osb }; vp_assert(vp_outcome([&] { pp << b->unit; }) != 2, 4); }
   b->lx.decompose(b->lx.static_specifier() | b->lx.inline_specifier()); b->lx.decompose(b->lx.const_qualifier());
   // the same short spellings as in the first life, through the word-keyed constructors: B's own nodes, spelled as asked
   for (auto sp : { u8"T", u8"i", u8"_", u8"ab", u8"int", u8"" }) {
      auto& idn = b->lx.get_identifier(sp); auto& op = b->lx.get_operator(sp); auto& lk = b->lx.get_linkage(sp);
      vp_assert(idn.string().characters() == util::word_view(sp) && op.opname().characters() == util::word_view(sp) && lk.language().what().characters() == util::word_view(sp), 7);
      vp_assert(&b->lx.get_identifier(b->lx.get_string(sp)) == &idn, 8);
   }
   impl::Module* mod = new impl::Module(b->lx); const ipr::Module_unit& mu = *mod->make_unit();
   Fingerprint g; fingerprint<ipr::Namespace>(&mu.global_namespace(), g); fingerprint<ipr::Name>(&mu.global_namespace().name(), g);
   tb.recheck(5);
   delete mod; delete b;
   vp_leakcheck();
   vp_done();
}
extern "C" void h_second_life(void) { second_life(); }
extern "C" void h_second_life_reuse(void) { second_life(); }
// overlapping lives: up to three Lexicons alive at the same time (each with a unit and a zoo case), created and destroyed in a symbolic
// order; when the last one is gone every allocation made on their behalf has been returned
extern "C" void h_overlapping_lives(void) {
   unsigned total = zoo::count();
   vp_mark();
   zoo::World* w[3] = { nullptr, nullptr, nullptr }; int made = 0; zoo::Null_visitor nv;
   for (int step = 0; step < 6; ++step) {
      int alive = (w[0] != nullptr) + (w[1] != nullptr) + (w[2] != nullptr);
      bool create = made < 3 && (alive == 0 || vp_flag());
      if (create) { zoo::World* x = new zoo::World; x->concrete = true; zoo::build(*x, (7 * made + 3) % total, nv); x->lx.get_string(u8"a word of some length, interned"); w[made++] = x; }
      else if (alive > 0) { unsigned k = vp_pick(3); vp_assume(w[k] != nullptr); delete w[k]; w[k] = nullptr; }
   }
   for (int k = 0; k < 3; ++k) if (w[k]) { delete w[k]; w[k] = nullptr; }
   vp_leakcheck();
   vp_done();
}
// large tables: one owning tree with C19_LARGE keys inserted in ascending or descending order (tall left / right spines), directly and through
// a Lexicon (a chain of pointer types: keys are addresses in allocation order); destruction returns every node
#ifndef C19_LARGE
#define C19_LARGE 6000
#endif
extern "C" void h_destroy_large(void) {
   bool descending = vp_flag();
   vp_mark();
   {
      util::rb_tree::container<int> tree;
      auto cmp = [](int stored, int key) { return stored < key ? -1 : stored > key ? 1 : 0; };
      for (int i = 0; i < C19_LARGE; ++i) tree.insert(descending ? C19_LARGE - i : i, cmp);
      vp_assert(tree.size() == C19_LARGE, 30);
      impl::Lexicon lx;
      const ipr::Type* t = &lx.int_type();
      for (int i = 0; i < C19_LARGE / 4; ++i) t = descending ? static_cast<const ipr::Type*>(&lx.get_pointer(*t)) : static_cast<const ipr::Type*>(&lx.get_reference(lx.get_pointer(*t)));
   }
   vp_leakcheck();
   vp_done();
}
// a refused request as the very first request of a Lexicon (its tables are still empty): nothing stays allocated
extern "C" void h_refused_first(void) {
   unsigned what = vp_pick(3), slots = 1 + vp_pick(2); bool trailing = vp_flag();
   vp_mark();
   {
      impl::Lexicon lx;
      impl::Warehouse<ipr::Type> gap(trailing ? 0 : slots); if (trailing) { gap.push_back(lx.int_type()); gap.rep().resize(1 + slots); } else gap.push_back(lx.int_type());
      if (what == 0) (void)vp_outcome([&] { (void)lx.get_product(gap); });
      else if (what == 1) (void)vp_outcome([&] { (void)lx.get_sum(gap); });
      else (void)vp_outcome([&] { (void)lx.get_qualified(ipr::Qualifiers{ }, lx.int_type()); });
   }
   vp_leakcheck();
   vp_done();
}

// words presented from short-lived client buffers: every spelling is handed to the Lexicon in a heap buffer that dies right after the
// request; later requests (same word again, other words of the same or another length, symbolic order) must not read the dead buffers
extern "C" void h_dead_buffers(void) {
   vp_mark();
   {
      impl::Lexicon lx;
      static const char* const words[4] = { "abc", "xyz", "abcd", "qrs" };
      const ipr::String* first[4] = { nullptr, nullptr, nullptr, nullptr };
      for (int step = 0; step < C19_BUF_STEPS; ++step) {
         unsigned k = vp_pick(4); bool ident = vp_flag();
         std::size_t n = std::strlen(words[k]);
         char8_t* buf = new char8_t[n]; for (std::size_t i = 0; i < n; ++i) buf[i] = static_cast<char8_t>(words[k][i]);
         const ipr::String& s = ident ? lx.get_identifier(ipr::util::word_view(buf, n)).string() : lx.get_string(ipr::util::word_view(buf, n));
         delete[] buf;
         if (first[k] == nullptr) first[k] = &s;
         vp_assert(first[k] == &s && s.size() == n, 60);
      }
   }
   vp_leakcheck();
   vp_done();
}
