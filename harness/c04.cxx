// C04 — names and atoms are unified; a spelling has a single Identifier everywhere.
#include "common.h"
#ifndef C04_L
#define C04_L 18
#endif
#ifndef C04_FILL
#define C04_FILL 12
#endif
namespace {
   struct World {
      impl::Lexicon lx;
      impl::Translation_unit unit { lx };
      const ipr::Type* T[3];
      const ipr::String* S[3];
      const ipr::Identifier* I[3];
      const ipr::Template* TM[2];
      const ipr::Expr* E[2];
      const ipr::Expr_list* XL[2];
      // fillers for h_separated: operand nodes and spellings used only by the concrete bulk requests
      enum { NF = C04_FILL, NK = 15 };
      const ipr::Type* F[NF ? NF : 1]; const ipr::String* FS[NF ? NF : 1]; const ipr::Identifier* FI[NF ? NF : 1];
      const void* fnode[NF ? NF : 1][NK];
      void make_fillers(int from, int to) {
         // spellings on both sides of the pool spellings ("+", "alpha", "int") in the byte order the word tables are keyed on
         static const char8_t* const spell[] = { u8"!", u8"zeta", u8"b", u8"#", u8"k", u8"inu", u8"ins", u8"alph", u8"alphaa", u8"*", u8",", u8"in", u8"intt", u8"y", u8"a", u8"j", u8"m", u8"%", u8"x", u8"c",
            u8"d", u8"e", u8"f", u8"g", u8"h", u8"i", u8"l", u8"n", u8"o", u8"p", u8"q", u8"r", u8"s", u8"t", u8"u", u8"v", u8"w", u8"aa", u8"ab", u8"ac", u8"ad", u8"ae", u8"af", u8"ag", u8"ah", u8"ai", u8"aj", u8"ak" };
         for (int i = from; i < to && i < NF; ++i) {
            F[i] = (i % 2 == 0) ? static_cast<const ipr::Type*>(lx.make_class(*unit.global_region())) : static_cast<const ipr::Type*>(lx.make_union(*unit.global_region()));
            FS[i] = &lx.get_string(spell[i % 48]); FI[i] = &lx.get_identifier(*FS[i]);
         }
      }
      void bulk_one(int i, const void** out) {
         int k = 0; auto& f = *F[i]; auto& s = *FS[i]; auto& id = *FI[i];
         out[k++] = &lx.get_identifier(s.characters()); out[k++] = &lx.get_operator(s); out[k++] = &lx.get_suffix(id);
         out[k++] = &lx.get_conversion(f); out[k++] = &lx.get_ctor_name(f); out[k++] = &lx.get_dtor_name(f);
         out[k++] = &lx.get_template_id(*E[i % 2], *lx.make_expr_list());       // a fresh argument list each time: generative operand
         out[k++] = &lx.get_logogram(s); out[k++] = &lx.get_symbol(id, *T[i % 3]); out[k++] = &lx.get_symbol(*I[i % 3], f);
         out[k++] = &lx.get_label(id); out[k++] = &lx.get_this(f);
         out[k++] = &lx.get_literal(f, *S[i % 3]); out[k++] = &lx.get_literal(*T[i % 3], s);
         out[k++] = &lx.get_linkage(s);
         (void)lx.get_calling_convention(s.characters());
      }
      void bulk(int from, int to) { for (int i = from; i < to && i < NF; ++i) bulk_one(i, fnode[i]); }
      bool bulk_unchanged(int from, int to) {
         bool ok = true; const void* again[NK];
         for (int i = from; i < to && i < NF; ++i) { bulk_one(i, again); for (int k = 0; k < NK; ++k) if (k != 6) ok = ok && again[k] == fnode[i][k]; }
         return ok;
      }
      explicit World(int pre = -1) {        // fillers only for the harnesses that ask for them (they enlarge every table)
         const bool fill = pre >= 0; if (fill) make_fillers(0, pre);
         T[0] = &lx.int_type(); T[1] = lx.make_class(*unit.global_region()); T[2] = &lx.get_pointer(lx.bool_type());
         vp_sort_by_address(T, 3);
         S[0] = &lx.get_string(u8"alpha"); S[1] = &lx.get_string(u8"int"); S[2] = &lx.get_string(u8"+");
         for (int i = 0; i < 3; ++i) I[i] = &lx.get_identifier(*S[i]);
         impl::Warehouse<ipr::Type> w1; w1.push_back(lx.typename_type());
         auto& fa = lx.get_forall(lx.get_product(w1), lx.class_type());
         TM[0] = unit.global_scope()->make_primary_template(*I[0], fa);
         TM[1] = unit.global_scope()->make_primary_template(lx.get_identifier(u8"beta"), fa);
         E[0] = lx.make_id_expr(*I[0]); E[1] = &lx.true_value();
         auto* x0 = lx.make_expr_list(); auto* x1 = lx.make_expr_list(); x1->push_back(&lx.false_value());
         XL[0] = x0; XL[1] = x1;
         if (fill) make_fillers(pre, NF);
      }
   };
   enum Ctor { KIdentifier, KOperator, KSuffix, KConversion, KCtor, KDtor, KGuide, KTemplate_id, KLogogram, KSymbol, KLabel, KThis, KLiteral, KLinkage, KConvention, NCTOR };
   struct Req { unsigned c; unsigned a[2]; const void* node; };
   const void* request(World& w, Req& r, unsigned c, bool lite = false) {
      auto& lx = w.lx; auto vp_flag = [lite] { return lite ? false : ::vp_flag(); }; r.c = c; r.a[0] = r.a[1] = 0;
      switch (c) {
      case KIdentifier: r.a[0] = vp_pick(3); return vp_flag() ? &lx.get_identifier(*w.S[r.a[0]]) : &lx.get_identifier(w.S[r.a[0]]->characters());
      case KOperator: r.a[0] = vp_pick(3); return vp_flag() ? &lx.get_operator(*w.S[r.a[0]]) : &lx.get_operator(w.S[r.a[0]]->characters());
      case KSuffix: r.a[0] = vp_pick(3); return &lx.get_suffix(*w.I[r.a[0]]);
      case KConversion: r.a[0] = vp_pick(3); return &lx.get_conversion(*w.T[r.a[0]]);
      case KCtor: r.a[0] = vp_pick(3); return &lx.get_ctor_name(*w.T[r.a[0]]);
      case KDtor: r.a[0] = vp_pick(3); return &lx.get_dtor_name(*w.T[r.a[0]]);
      case KGuide: r.a[0] = vp_pick(2); return &lx.get_guide_name(*w.TM[r.a[0]]);
      case KTemplate_id: r.a[0] = vp_pick(2); r.a[1] = vp_pick(2);
         return vp_flag() ? static_cast<const void*>(&lx.get_template_id(*w.E[r.a[0]], *w.XL[r.a[1]])) : static_cast<const void*>(static_cast<const ipr::Template_id*>(lx.make_template_id(*w.E[r.a[0]], *w.XL[r.a[1]])));
      case KLogogram: r.a[0] = vp_pick(3); return &lx.get_logogram(*w.S[r.a[0]]);
      case KSymbol: r.a[0] = vp_pick(3); r.a[1] = vp_pick(3); return &lx.get_symbol(*w.I[r.a[0]], *w.T[r.a[1]]);
      case KLabel: r.a[0] = vp_pick(3); return &lx.get_label(*w.I[r.a[0]]);
      case KThis: r.a[0] = vp_pick(3); return &lx.get_this(*w.T[r.a[0]]);
      case KLiteral: { r.a[0] = vp_pick(3); r.a[1] = vp_pick(3); unsigned form = lite ? 2 : vp_pick(4);
         if (form == 0) return static_cast<const ipr::Literal*>(lx.make_literal(*w.T[r.a[0]], *w.S[r.a[1]]));
         if (form == 1) return static_cast<const ipr::Literal*>(lx.make_literal(*w.T[r.a[0]], w.S[r.a[1]]->characters()));
         if (form == 2) return &lx.get_literal(*w.T[r.a[0]], *w.S[r.a[1]]);
         return &lx.get_literal(*w.T[r.a[0]], w.S[r.a[1]]->characters()); }
      case KLinkage: r.a[0] = vp_pick(3); return vp_flag() ? &lx.get_linkage(*w.S[r.a[0]]) : &lx.get_linkage(w.S[r.a[0]]->characters());
      case KConvention: r.a[0] = vp_pick(3); return &lx.get_calling_convention(w.S[r.a[0]]->characters());
      }
      return nullptr;
   }
   inline bool same_args(const Req& x, const Req& y) { return x.c == y.c && x.a[0] == y.a[0] && x.a[1] == y.a[1]; }
   // the same request again (nothing symbolic)
   const void* again(World& w, const Req& r) {
      auto& lx = w.lx;
      switch (r.c) {
      case KIdentifier: return &lx.get_identifier(*w.S[r.a[0]]);
      case KOperator: return &lx.get_operator(*w.S[r.a[0]]);
      case KSuffix: return &lx.get_suffix(*w.I[r.a[0]]);
      case KConversion: return &lx.get_conversion(*w.T[r.a[0]]);
      case KCtor: return &lx.get_ctor_name(*w.T[r.a[0]]);
      case KDtor: return &lx.get_dtor_name(*w.T[r.a[0]]);
      case KGuide: return &lx.get_guide_name(*w.TM[r.a[0]]);
      case KTemplate_id: return &lx.get_template_id(*w.E[r.a[0]], *w.XL[r.a[1]]);
      case KLogogram: return &lx.get_logogram(*w.S[r.a[0]]);
      case KSymbol: return &lx.get_symbol(*w.I[r.a[0]], *w.T[r.a[1]]);
      case KLabel: return &lx.get_label(*w.I[r.a[0]]);
      case KThis: return &lx.get_this(*w.T[r.a[0]]);
      case KLiteral: return &lx.get_literal(*w.T[r.a[0]], *w.S[r.a[1]]);
      case KLinkage: return &lx.get_linkage(*w.S[r.a[0]]);
      case KConvention: return &lx.get_calling_convention(w.S[r.a[0]]->characters());
      }
      return nullptr;
   }
   // a label and a symbol may legitimately coincide: get_label(id) is the symbol (id, void)
}
extern "C" void h_same_table(void) {
   World* w = new World; Req r[2];
   unsigned c = vp_pick(NCTOR);
   for (int i = 0; i < 2; ++i) r[i].node = request(*w, r[i], c);
   vp_assert((r[0].node == r[1].node) == same_args(r[0], r[1]), 1);
   vp_done();
}
extern "C" void h_history(void) {
   World* w = new World; Req r[3];
   unsigned c = vp_pick(NCTOR);
   r[0].node = request(*w, r[0], c, true);
   r[1].node = request(*w, r[1], vp_pick(NCTOR), true);      // anything in between
   r[2].node = request(*w, r[2], c, true);
   vp_assert((r[0].node == r[2].node) == same_args(r[0], r[2]), 2);
   if (r[1].c == c) vp_assert((r[0].node == r[1].node) == same_args(r[0], r[1]) && (r[1].node == r[2].node) == same_args(r[1], r[2]), 3);
   vp_done();
}
// three requests to one table, then each again: every key is still found after the third insertion has rotated the table; and three
// requests spread over the tables that share storage or operands (symbol / label / this share one table)
extern "C" void h_table3(void) {
   World* w = new World; Req r[3];
   unsigned c = vp_pick(NCTOR);
   for (int i = 0; i < 3; ++i) r[i].node = request(*w, r[i], c, true);
   for (int i = 0; i < 3; ++i) for (int j = i + 1; j < 3; ++j) vp_assert((r[i].node == r[j].node) == same_args(r[i], r[j]), 7);
   for (int i = 0; i < 3; ++i) vp_assert(again(*w, r[i]) == r[i].node, 8);
   vp_done();
}
// symbols, labels and `this` live in one table keyed on (name, type): a label is the symbol (name, void), `this` the symbol ("this", T)
extern "C" void h_symbol_table(void) {
   World* w = new World; auto& lx = w->lx; Req r[3];
   const ipr::Name* names[4] = { w->I[0], w->I[1], w->I[2], &lx.get_identifier(u8"this") };
   const ipr::Type* types[4] = { w->T[0], w->T[1], w->T[2], &lx.void_type() };
   const ipr::Symbol* node[3]; const ipr::Name* nm[3]; const ipr::Type* ty[3];
   for (int i = 0; i < 3; ++i) {
      unsigned form = vp_pick(3);
      if (form == 0) { unsigned a = vp_pick(4), b = vp_pick(4); nm[i] = names[a]; ty[i] = types[b]; node[i] = &lx.get_symbol(*nm[i], *ty[i]); }
      else if (form == 1) { unsigned a = vp_pick(3); nm[i] = names[a]; ty[i] = types[3]; node[i] = &lx.get_label(*w->I[a]); }
      else { unsigned b = vp_pick(4); nm[i] = names[3]; ty[i] = types[b]; node[i] = &lx.get_this(*ty[i]); }
   }
   for (int i = 0; i < 3; ++i) {
      vp_assert(&node[i]->name() == nm[i] && &node[i]->type() == ty[i], 30);            // still exactly the (name, type) asked for, after the later requests
      vp_assert(&lx.get_symbol(*nm[i], *ty[i]) == node[i], 31);
      for (int j = i + 1; j < 3; ++j) vp_assert((node[i] == node[j]) == (nm[i] == nm[j] && ty[i] == ty[j]), 32);
   }
   vp_done();
}
// requests separated by bulk insertions into every name/atom table (see C01 h_separated)
extern "C" void h_separated(void) {
   World* w = new World(World::NF / 2); Req r[2];
   unsigned c = vp_pick(NCTOR);
   w->bulk(0, World::NF / 2);
   r[0].node = request(*w, r[0], c, true);
   w->bulk(World::NF / 2, World::NF);
   r[1].node = request(*w, r[1], c, true);
   vp_assert((r[0].node == r[1].node) == same_args(r[0], r[1]), 4);
   vp_assert(w->bulk_unchanged(0, World::NF), 5);
   for (int i = 0; i < World::NF; ++i) for (int k = 0; k < World::NK; ++k) vp_assert(w->fnode[i][k] != r[0].node && w->fnode[i][k] != r[1].node, 6);
   vp_done();
}
// word-keyed constructors: two symbolic spellings, equal bytes <=> same node
extern "C" void h_words(void) {
   World* w = new World; auto& lx = w->lx;
   Word<2> a, b; a.make(1); b.make(1); vp_not_reserved_range(a.buf[0]); vp_not_reserved_range(b.buf[0]);
   bool same = a.same(b);
   // both spellings reach the Lexicon through one reused token buffer, as from a scanner: nothing may be remembered about the caller's storage
   static char8_t token[2]; const bool through_token = true;      // (C03 h_intern_hist explores both presentations; here the reused buffer subsumes separate ones)
   auto present = [&](const Word<2>& x) { if (!through_token) return x.view(); token[0] = x.buf[0]; token[1] = x.buf[1]; return util::word_view(token, x.len); };
   const ipr::Identifier& ia = lx.get_identifier(present(a)); const ipr::Identifier& ib = lx.get_identifier(present(b));
   vp_assert((&ia == &ib) == same && ia.string().characters() == a.view() && ib.string().characters() == b.view(), 17);
   const ipr::Linkage& la = lx.get_linkage(present(a)); const ipr::Linkage& lb = lx.get_linkage(present(b));
   vp_assert((&la == &lb) == same && (la == lb) == same, 18);
   const ipr::Literal& ta = lx.get_literal(lx.int_type(), present(a)); const ipr::Literal& tb = lx.get_literal(lx.int_type(), present(b));
   vp_assert((&ta == &tb) == same, 19);
   const ipr::String& sa = lx.get_string(present(a)); const ipr::String& sb = lx.get_string(present(b));
   vp_assert((&sa == &sb) == same, 9);
   vp_assert((&lx.get_identifier(sa) == &lx.get_identifier(sb)) == same, 10);
   vp_assert((&lx.get_operator(sa) == &lx.get_operator(sb)) == same, 11);
   vp_assert((&lx.get_literal(lx.int_type(), sa) == &lx.get_literal(lx.int_type(), sb)) == same, 12);
   vp_assert((&lx.get_linkage(sa) == &lx.get_linkage(sb)) == same, 13);
   vp_assert((&lx.get_calling_convention(a.view()) == &lx.get_calling_convention(b.view())) == same, 14);
   vp_assert((&lx.get_logogram(sa) == &lx.get_logogram(sb)) == same, 15);
   vp_assert(lx.get_identifier(sa).string().characters() == a.view() && lx.get_operator(sb).opname().characters() == b.view(), 16);
   vp_done();
}
// one Identifier per spelling: a fully symbolic word against every Identifier reachable through the Lexicon
extern "C" void h_single_identifier(void) {
   impl::Lexicon* a = new impl::Lexicon; auto& lx = *a; const ipr::Lexicon& cl = lx;
   Word<C04_L> w; w.make();
   const ipr::Identifier& id = lx.get_identifier(w.view());
   vp_assert(id.string().characters() == w.view(), 20);
   vp_assert(&id == &lx.get_identifier(lx.get_string(w.view())), 21);
   const ipr::Type* builtins[] = { &cl.void_type(), &cl.bool_type(), &cl.char_type(), &cl.schar_type(), &cl.uchar_type(), &cl.wchar_t_type(), &cl.char8_t_type(), &cl.char16_t_type(),
      &cl.char32_t_type(), &cl.short_type(), &cl.ushort_type(), &cl.int_type(), &cl.uint_type(), &cl.long_type(), &cl.ulong_type(), &cl.long_long_type(), &cl.ulong_long_type(),
      &cl.float_type(), &cl.double_type(), &cl.long_double_type(), &cl.ellipsis_type(), &cl.typename_type(), &cl.class_type(), &cl.union_type(), &cl.enum_type(), &cl.namespace_type() };
   for (auto t : builtins) {
      auto n = util::view<ipr::Identifier>(t->name());
      vp_assert(n != nullptr, 22);
      if (n && n->string().characters() == w.view()) vp_assert(n == &id, 23);       // the name carried by the built-in is the one Identifier
   }
   const ipr::Symbol* syms[] = { &cl.true_value(), &cl.false_value(), &cl.nullptr_value(), &cl.default_value(), &cl.delete_value() };
   for (auto s : syms) {
      auto n = util::view<ipr::Identifier>(s->name());
      vp_assert(n != nullptr, 24);
      if (n && n->string().characters() == w.view()) vp_assert(n == &id, 25);
   }
   for (auto& k : impl::known_words) if (k.text() == w.view()) vp_assert(static_cast<const ipr::Identifier*>(&k) == &id, 26);   // every reserved word
   auto n = util::view<ipr::Identifier>(lx.get_this(lx.int_type()).name());
   if (n && n->string().characters() == w.view()) vp_assert(n == &id, 27);
   vp_done();
}
