// Harness interface shared by the symbolic engine (calls are intercepted by name) and the native replay runtime.
#ifndef VP_H
#define VP_H
#include <cstdint>
extern "C" {
   uint64_t nondet_ulong(void);            // fresh symbolic 64-bit value / next value of the replay vector
   void vp_assume(int);                     // restrict the path
   void vp_assert(int cond, int id);        // the property
   uint64_t vp_fork(uint64_t);              // force a case split on every feasible value (native: identity)
   void vp_observe(uint64_t tag, uint64_t v); // address-independent observation for the differential run
   void vp_done(void);
   void vp_phase(int);                      // C20: 1 = building the other Lexicon, 2 = operating on this one, 0 = off (native: no-op)
   void vp_check_range(void* p, uint64_t len); // [p, p+len) lies inside one live allocation (native: the range is written, ASan checks)
   void vp_mark(void);                      // start of a leak-accounting window (native: no-op, LeakSanitizer does the accounting)
   void vp_leakcheck(void);                 // every heap block allocated since vp_mark() must have been released                      // end-of-harness witness
}
#endif
