// C06 — category code, accept() and visitor defaults agree for every node class.
#include "zoo.h"
#include "categories.h"       // generated from include/ipr/node-category on every run
#include <type_traits>
namespace {
   // --- a visitor that records which hook ran, overriding every hook of ipr::Visitor
   struct Recorder : ipr::Visitor {
      int hits = 0; int code = -100; const void* seen = nullptr;
      void hit(int c, const void* p) { ++hits; code = c; seen = p; }
      void visit(const ipr::Node& n) override { hit(-1, &n); }
      void visit(const ipr::Expr& n) override { hit(-2, &n); }
      void visit(const ipr::Classic& n) override { hit(-3, &n); }
      void visit(const ipr::Name& n) override { hit(-4, &n); }
      void visit(const ipr::Type& n) override { hit(-5, &n); }
      void visit(const ipr::Directive& n) override { hit(-6, &n); }
      void visit(const ipr::Stmt& n) override { hit(-7, &n); }
      void visit(const ipr::Decl& n) override { hit(-8, &n); }
#define VP_HOOK(K) void visit(const ipr::K& n) override { hit((int)ipr::Category_code::K, static_cast<const ipr::Node*>(&n)); }
      VP_CATEGORIES(VP_HOOK)
#undef VP_HOOK
   };
   // --- only the seven sinks (+ optionally Classic): every leaf hook keeps its default
   struct Sinks : ipr::Visitor {
      bool with_classic; int hits = 0; int code = -100; const void* seen = nullptr;
      explicit Sinks(bool c) : with_classic(c) { }
      void hit(int c, const ipr::Node* p) { ++hits; code = c; seen = p; }
      void visit(const ipr::Node& n) override { hit(-1, &n); }
      void visit(const ipr::Expr& n) override { hit(-2, &n); }
      void visit(const ipr::Classic& n) override { if (with_classic) hit(-3, &n); else ipr::Visitor::visit(n); }
      void visit(const ipr::Name& n) override { hit(-4, &n); }
      void visit(const ipr::Type& n) override { hit(-5, &n); }
      void visit(const ipr::Directive& n) override { hit(-6, &n); }
      void visit(const ipr::Stmt& n) override { hit(-7, &n); }
      void visit(const ipr::Decl& n) override { hit(-8, &n); }
   };
   // nearest abstract super-category, computed from the interface class hierarchy (independent of traversal.cxx)
   template<class I> constexpr int super_category(bool with_classic) {
      if (std::is_base_of_v<ipr::Decl, I>) return -8;
      if (std::is_base_of_v<ipr::Stmt, I>) return -7;
      if (std::is_base_of_v<ipr::Directive, I>) return -6;
      if (std::is_base_of_v<ipr::Type, I>) return -5;
      if (std::is_base_of_v<ipr::Name, I>) return -4;
      if (std::is_base_of_v<ipr::Classic, I>) return with_classic ? -3 : -2;
      if (std::is_base_of_v<ipr::Expr, I>) return -2;
      return -1;
   }
   template<class I> struct category_of;
#define VP_CATOF(K) template<> struct category_of<ipr::K> { static constexpr ipr::Category_code value = ipr::Category_code::K; };
   VP_CATEGORIES(VP_CATOF)
#undef VP_CATOF

   struct Category_check {
      void generative() { }
      int nodes = 0;
      template<class I> void node(const I& n) {
         if constexpr (std::is_base_of_v<ipr::Node, I>) {
            ++nodes;
            constexpr ipr::Category_code want = category_of<I>::value;
            const ipr::Node& base = n;
            vp_assert(n.category == want, 1);                                                     // the code of its own interface class
            Recorder r; base.accept(r);
            vp_assert(r.hits == 1 && r.code == (int)want && r.seen == static_cast<const void*>(&base), 2);   // exactly once, the hook of that class
            Sinks s1(true); base.accept(s1);
            vp_assert(s1.hits == 1 && s1.code == super_category<I>(true) && s1.seen == static_cast<const void*>(&base), 3);          // default: the node itself, at its nearest abstract super-category
            Sinks s2(false); base.accept(s2);
            vp_assert(s2.hits == 1 && s2.code == super_category<I>(false) && s2.seen == static_cast<const void*>(&base), 4);                               // classic expressions arrive at Expr (the node itself, not something it refers to)
#define VP_VIEW(K) { const ipr::K* p = util::view<ipr::K>(base); if (ipr::Category_code::K == want) vp_assert(p != nullptr && static_cast<const ipr::Node*>(p) == &base, 5); else vp_assert(p == nullptr, 6); }
            VP_CATEGORIES(VP_VIEW)
#undef VP_VIEW
         }
      }
      void operands(bool) { }
      template<class N> void typed(const N&, const ipr::Type*) { }
   };
}
extern "C" void h_categories(void) {
   unsigned total = zoo::count();
   zoo::World* w = new zoo::World;
   unsigned which = vp_pick(total);
   vp_observe(1, which);
   Category_check v;
   zoo::build(*w, which, v);
   vp_observe(2, v.nodes);
   vp_done();
}
// address reuse: the nodes of one zoo case are examined in Lexicon A, A is destroyed, and a neighbouring zoo case is built in a second
// Lexicon by an allocator that hands freed blocks out again (engine bound alloc_reuse; natively: malloc), so that nodes of other categories
// sit at the addresses of dead ones.  Every answer must depend on the node that is there now.
extern "C" void h_address_reuse(void) {
   unsigned total = zoo::count();
   unsigned which = vp_pick(total); unsigned delta = vp_pick(3);
   vp_observe(1, which);
   { zoo::World* a = new zoo::World; a->concrete = true; Category_check v; zoo::build(*a, which, v); delete a; }      // operands of the first life: deterministic picks
   zoo::World* b = new zoo::World;
   Category_check v;
   zoo::build(*b, (which + (delta == 0 ? 1 : delta == 1 ? 2 : total - 1)) % total, v);
   vp_observe(2, v.nodes);
   vp_done();
}
