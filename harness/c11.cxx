// C11 — qualified types are in normal form.
#include "common.h"
namespace {
   struct World {
      impl::Lexicon lx;
      impl::Translation_unit unit { lx };
      const ipr::Type* T[3];
      World() {
         T[0] = &lx.int_type(); T[1] = &lx.get_pointer(lx.char_type()); T[2] = lx.make_class(*unit.global_region());
         vp_sort_by_address(T, 3);
      }
   };
   inline bool is_qualified(const ipr::Type& t) { return t.category == Category_code::Qualified || util::view<ipr::Qualified>(t) != nullptr; }
}
// empty set refused; a single qualification reports exactly what it was given (full 64-bit symbolic set)
extern "C" void h_single(void) {
   World* w = new World; auto& lx = w->lx;
   const ipr::Type& t = *w->T[vp_pick(3)];
   uint64_t q = nondet_ulong();
   int out = vp_outcome([&] { lx.get_qualified(ipr::Qualifiers(q), t); });
   vp_assert((out == 1) == (q == 0), 1);            // refused with a logic_error exactly for the empty set
   vp_assert(out != 2, 2);
   if (q != 0) {
      const ipr::Qualified& a = lx.get_qualified(ipr::Qualifiers(q), t);
      vp_assert(util::rep(a.qualifiers()) == q, 3);
      vp_assert(&a.main_variant() == &t, 4);
      vp_assert(!is_qualified(a.main_variant()), 5);
      vp_assert(&a == &lx.get_qualified(ipr::Qualifiers(q), t), 6);
   }
   vp_done();
}
// nesting: three successive qualification requests with symbolic non-empty sets
extern "C" void h_nested(void) {
   World* w = new World; auto& lx = w->lx;
   const ipr::Type& t = *w->T[vp_pick(3)];
   uint64_t q1 = nondet_ulong() & 7, q2 = nondet_ulong() & 7, q3 = nondet_ulong() & 7;
   vp_assume(q1 != 0); vp_assume(q2 != 0); vp_assume(q3 != 0);
   auto Q = [](uint64_t x) { return ipr::Qualifiers(x); };
   const ipr::Qualified& a = lx.get_qualified(Q(q1), t);
   const ipr::Qualified& b = lx.get_qualified(Q(q2), a);
   const ipr::Qualified& c = lx.get_qualified(Q(q3), b);
   vp_assert(!is_qualified(a.main_variant()), 10);
   vp_assert(!is_qualified(b.main_variant()), 11);          // main variant is never itself qualified
   vp_assert(!is_qualified(c.main_variant()), 12);
   vp_assert(&b.main_variant() == &t && util::rep(b.qualifiers()) == (q1 | q2), 13);
   vp_assert(&c.main_variant() == &t && util::rep(c.qualifiers()) == (q1 | q2 | q3), 14);
   vp_assert(&b == &lx.get_qualified(Q(q1 | q2), t), 15);   // union over the innermost unqualified type
   vp_assert(&c == &lx.get_qualified(Q(q1 | q2 | q3), t), 16);
   // order and grouping independence
   const ipr::Qualified& b2 = lx.get_qualified(Q(q1), lx.get_qualified(Q(q2), t));
   vp_assert(&b2 == &b, 17);
   const ipr::Qualified& c2 = lx.get_qualified(Q(q1 | q3), lx.get_qualified(Q(q2), t));
   const ipr::Qualified& c3 = lx.get_qualified(Q(q1), lx.get_qualified(Q(q3), lx.get_qualified(Q(q2), t)));
   vp_assert(&c2 == &c && &c3 == &c, 18);
   // the empty set stays refused on an already-qualified type
   VP_MUST_THROW_LOGIC(lx.get_qualified(Q(0), a), 19);
   vp_done();
}

// histories of requests whose operand is one of three unqualified types (several main variants share the table) or any earlier result:
// every result is the node of (union of sets, innermost unqualified type), however it was reached
#ifndef C11_K
#define C11_K 3
#endif
extern "C" void h_request_history(void) {
   World* w = new World; auto& lx = w->lx;
   const ipr::Qualified* res[C11_K]; uint64_t acc[C11_K]; unsigned base[C11_K];
   for (int k = 0; k < C11_K; ++k) {
      uint64_t q = 1 + vp_pick(7);                          // a non-empty subset of {const, volatile, restrict}
      unsigned on = vp_pick(3 + k);                          // 0..2 = one of the three unqualified types (address-sorted), 3+i = the result of request i
      const ipr::Type& operand = on < 3 ? *w->T[on] : static_cast<const ipr::Type&>(*res[on - 3]);
      base[k] = on < 3 ? on : base[on - 3];
      acc[k] = q | (on < 3 ? 0 : acc[on - 3]);
      res[k] = &lx.get_qualified(ipr::Qualifiers(q), operand);
      vp_assert(util::rep(res[k]->qualifiers()) == acc[k] && &res[k]->main_variant() == w->T[base[k]], 30);
      for (int j = 0; j < k; ++j) vp_assert((res[j] == res[k]) == (acc[j] == acc[k] && base[j] == base[k]), 31);
   }
   for (int k = 0; k < C11_K; ++k) vp_assert(&lx.get_qualified(ipr::Qualifiers(acc[k]), *w->T[base[k]]) == res[k], 32);       // the one-step request is the same node
   vp_done();
}
// an operand that was qualified by ANOTHER Lexicon (the built-in types are common to all Lexicons, so such a node can reach a fresh
// Lexicon as its very first request): the result is still in normal form within the Lexicon asked
extern "C" void h_foreign_operand(void) {
   impl::Lexicon* a = new impl::Lexicon; impl::Lexicon* b = new impl::Lexicon;
   uint64_t q1 = 1 + vp_pick(7), q2 = 1 + vp_pick(7);
   const ipr::Type& base = vp_flag() ? static_cast<const ipr::Type&>(a->int_type()) : a->get_pointer(a->char_type());
   const ipr::Qualified& foreign = a->get_qualified(ipr::Qualifiers(q1), base);
   if (vp_flag()) (void)b->get_qualified(b->const_qualifier(), b->bool_type());           // b may or may not have qualified anything yet
   const ipr::Qualified& r = b->get_qualified(ipr::Qualifiers(q2), foreign);
   vp_assert(!is_qualified(r.main_variant()) && &r.main_variant() == &base, 40);
   vp_assert(util::rep(r.qualifiers()) == (q1 | q2), 41);
   vp_assert(&r == &b->get_qualified(ipr::Qualifiers(q1 | q2), base), 42);
   vp_done();
}
