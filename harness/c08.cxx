// C08 — the ordered-set utility stays a valid red-black tree for any insertions.
// Real code under test: ipr::util::rb_tree::{core::rotate_left,rotate_right,fixup_insert, chain::find/insert, container::find/insert}
#include "common.h"
namespace rb = ipr::util::rb_tree;

#ifndef C08_N
#define C08_N 5
#endif
#ifndef C08_NI
#define C08_NI 5
#endif
#ifndef C08_H
#define C08_H 3
#endif

namespace {
   // a three-way comparison: only the sign of the result is meaningful, so the magnitudes vary with the operands (-1, -3, 1, 2)
   struct IntCmp { int operator()(int a, int b) const { return a < b ? ((a & 1) ? -1 : -3) : (a > b ? ((b & 1) ? 1 : 2) : 0); } };

   // Shape reader: derived from the protected core.
   template<class Tree, class Node>
   struct Shape : Tree {
      Node* top() const { return this->root; }
      void set_top(Node* n) { this->root = n; }
      void set_count(std::ptrdiff_t c) { this->count = c; }
   };

   constexpr int MAXN = 40;
   template<class Node>
   struct Walk {
      const Node* order[MAXN];      // in-order: left subtree, node, right subtree
      int n = 0;
      bool ok = true;
      int maxdepth = 0;
      // returns black height (counting null leaves as 1), 0 on failure
      int go(const Node* x, const Node* parent, int depth) {
         if (x == nullptr) return 1;
         if (depth > 12 || n >= MAXN) { ok = false; return 0; }
         if (depth > maxdepth) maxdepth = depth;
         if (const_cast<Node*>(x)->parent() != parent) ok = false;
         Node* l = const_cast<Node*>(x)->left(); Node* r = const_cast<Node*>(x)->right();
         if (x->color == rb::Color::Red) {
            if (l && l->color == rb::Color::Red) ok = false;
            if (r && r->color == rb::Color::Red) ok = false;
         }
         int bl = go(l, x, depth + 1);
         if (n < MAXN) order[n++] = x;
         int br = go(r, x, depth + 1);
         if (bl != br) ok = false;
         return bl + (x->color == rb::Color::Black ? 1 : 0);
      }
   };

   inline int log2floor(int x) { int r = 0; while (x > 1) { x >>= 1; ++r; } return r; }

   // All shape invariants of the property, asserted with ids base+0.. ; cmp(a,b) three-way on nodes.
   template<class Node, class Cmp>
   void check_shape(Node* root, std::ptrdiff_t expected_nodes, Cmp cmp, int base) {
      Walk<Node> w;
      if (root != nullptr) vp_assert(root->color == rb::Color::Black, base + 0);     // black root
      w.go(root, nullptr, 1);
      vp_assert(w.ok, base + 1);                                                     // parent links, red-red, black height
      vp_assert(w.n == expected_nodes, base + 2);                                    // node count = distinct keys
      bool sorted = true;
      // search order: find() goes left when cmp(node,key) < 0, i.e. the left subtree holds the keys greater than the node,
      // so the in-order sequence (left, node, right) is strictly descending w.r.t. the comparator
      for (int i = 0; i + 1 < w.n; ++i) if (!(cmp(*w.order[i], *w.order[i + 1]) > 0)) sorted = false;
      vp_assert(sorted, base + 3);                                                   // binary search tree w.r.t. the comparator
      vp_assert(w.maxdepth <= 2 * log2floor(w.n + 1) + (w.n ? 0 : 0) || w.n == 0, base + 4);   // height <= 2*log2(n+1)
   }
}

// ---- (1a) owning flavour, all insertion sequences of length N over symbolic 8-bit keys
extern "C" void h_own_hist(void) {
   using Tree = Shape<rb::container<int>, rb::node<int>>;
   Tree* t = new Tree;
   int keys[C08_N]; int* where[C08_N]; int distinct = 0;
   for (int i = 0; i < C08_N; ++i) {
      keys[i] = (int)(nondet_ulong() & 0xff);
      bool dup = false; int* old = nullptr;
      for (int j = 0; j < i; ++j) if (keys[j] == keys[i]) { dup = true; old = where[j]; }
      int* p = t->insert(keys[i], IntCmp{});
      where[i] = p;
      vp_assert(*p == keys[i], 1);
      if (dup) vp_assert(p == old, 2); else { ++distinct; for (int j = 0; j < i; ++j) vp_assert(p != where[j], 3); }
      vp_assert(t->size() == distinct, 4);
      auto cmp = [](const rb::node<int>& a, const rb::node<int>& b) { return IntCmp{}(a.data, b.data); };
      check_shape(t->top(), distinct, cmp, 10);
   }
   for (int i = 0; i < C08_N; ++i) vp_assert(t->find(keys[i], IntCmp{}) == where[i], 5);
   int fresh = (int)(nondet_ulong() & 0xff) | 0x100;       // a key never inserted
   vp_assert(t->find(fresh, IntCmp{}) == nullptr, 6);
   vp_done();
}

// ---- (1b) intrusive flavour (chain), distinct keys
namespace { struct INode : rb::link<INode> { int key = 0; }; }
extern "C" void h_chain_hist(void) {
   using Tree = Shape<rb::chain<INode>, INode>;
   Tree* t = new Tree;
   INode* nodes[C08_NI];
   auto ncmp = [](const INode& a, const INode& b) { return IntCmp{}(a.key, b.key); };
   auto kcmp = [](const INode& a, int k) { return IntCmp{}(a.key, k); };
   for (int i = 0; i < C08_NI; ++i) {
      nodes[i] = new INode; nodes[i]->key = (int)(nondet_ulong() & 0xff);
      for (int j = 0; j < i; ++j) vp_assume(nodes[j]->key != nodes[i]->key);
      INode* r = t->insert(nodes[i], ncmp);
      vp_assert(r == nodes[i], 1);
      vp_assert(t->size() == i + 1, 4);
      check_shape(t->top(), i + 1, ncmp, 10);
   }
   for (int i = 0; i < C08_NI; ++i) vp_assert(t->find(nodes[i]->key, kcmp) == nodes[i], 5);
   int fresh = (int)(nondet_ulong() & 0xff) | 0x100;
   vp_assert(t->find(fresh, kcmp) == nullptr, 6);
   vp_done();
}

// ---- (1c) address keys through the library's own node_compare (overload entries keyed by type identity)
extern "C" void h_addr_hist(void) {
   impl::Lexicon* lx = new impl::Lexicon;
   const ipr::Type* pool[6] = { &lx->int_type(), &lx->char_type(), &lx->bool_type(), &lx->void_type(), &lx->long_type(), &lx->double_type() };
   using Tree = Shape<rb::chain<impl::overload_entry>, impl::overload_entry>;
   Tree* t = new Tree;
   impl::overload_entry* nodes[4]; unsigned pick[4];
   for (int i = 0; i < 4; ++i) {
      pick[i] = (unsigned)vp_fork(nondet_ulong() & 7); vp_assume(pick[i] < 6);
      for (int j = 0; j < i; ++j) vp_assume(pick[j] != pick[i]);
      nodes[i] = new impl::overload_entry(*pool[pick[i]]);
      t->insert(nodes[i], impl::node_compare());
      check_shape(t->top(), i + 1, impl::node_compare(), 10);
   }
   for (int i = 0; i < 4; ++i) vp_assert(t->find(*pool[pick[i]], impl::node_compare()) == nodes[i], 5);
   for (unsigned k = 0; k < 6; ++k) {
      bool used = false; for (int i = 0; i < 4; ++i) if (pick[i] == k) used = true;
      if (!used) vp_assert(t->find(*pool[k], impl::node_compare()) == nullptr, 6);
   }
   vp_done();
}

// ---- (1d) lexicographic comparator: type sequences as stored by type_factory::type_seqs
extern "C" void h_lex_hist(void) {
   impl::Lexicon* lx = new impl::Lexicon;
   const ipr::Type* pool[3] = { &lx->int_type(), &lx->char_type(), &lx->bool_type() };
   using Seq = impl::ref_sequence<ipr::Type>;
   using Tree = Shape<rb::container<Seq>, rb::node<Seq>>;
   Tree* t = new Tree;
   constexpr int K = 4;
   unsigned len[K]; unsigned el[K][2]; Seq* where[K]; int distinct = 0;
   for (int i = 0; i < K; ++i) {
      len[i] = (unsigned)vp_fork(nondet_ulong() & 3); vp_assume(len[i] <= 2);
      Seq s;
      for (unsigned k = 0; k < len[i]; ++k) { el[i][k] = (unsigned)vp_fork(nondet_ulong() & 3); vp_assume(el[i][k] < 3); s.push_back(pool[el[i][k]]); }
      Seq* old = nullptr;
      for (int j = 0; j < i; ++j) {
         bool same = len[j] == len[i];
         for (unsigned k = 0; same && k < len[i]; ++k) if (el[j][k] != el[i][k]) same = false;
         if (same) old = where[j];
      }
      Seq* p = t->insert(s, impl::unary_lexicographic_compare());
      where[i] = p;
      if (old) vp_assert(p == old, 2); else { ++distinct; for (int j = 0; j < i; ++j) vp_assert(p != where[j], 3); }
      vp_assert(p->size() == len[i], 1);
      vp_assert(t->size() == distinct, 4);
      auto cmp = [](const rb::node<Seq>& a, const rb::node<Seq>& b) { return impl::unary_lexicographic_compare()(a.data, b.data); };
      check_shape(t->top(), distinct, cmp, 10);
   }
   vp_done();
}

// ---- (1e) long insertion sequences: C08_LONG symbolic keys whose *order type* is fixed by a chosen pattern (ascending, descending,
// zig-zag, organ pipe, or one of 28 pseudo-random permutations); the key values stay symbolic, every comparison outcome is
// implied by the assumed order and decided by the solver.  Both flavours, invariants after every insertion.
#ifndef C08_LONG
#define C08_LONG 16
#endif
namespace {
   void order_type(unsigned pattern, unsigned* rank) {      // rank[i] = position of the i-th inserted key in sorted order
      const unsigned n = C08_LONG;
      if (pattern == 0) for (unsigned i = 0; i < n; ++i) rank[i] = i;
      else if (pattern == 1) for (unsigned i = 0; i < n; ++i) rank[i] = n - 1 - i;
      else if (pattern == 2) for (unsigned i = 0; i < n; ++i) rank[i] = (i % 2 == 0) ? i / 2 : n - 1 - i / 2;
      else if (pattern == 3) for (unsigned i = 0; i < n; ++i) rank[i] = (i < n / 2) ? 2 * i : 2 * (n - 1 - i) + 1;
      else {                                                  // Fisher-Yates driven by an LCG seeded with the pattern number
         for (unsigned i = 0; i < n; ++i) rank[i] = i;
         unsigned x = pattern * 2654435761u + 12345u;
         for (unsigned i = n - 1; i > 0; --i) { x = x * 1664525u + 1013904223u; unsigned j = (x >> 16) % (i + 1); unsigned t = rank[i]; rank[i] = rank[j]; rank[j] = t; }
      }
   }
}
extern "C" void h_long_orders(void) {
   unsigned pattern = vp_pick(32); bool owning = vp_flag();
   unsigned rank[C08_LONG]; order_type(pattern, rank);
   int keys[C08_LONG]; int by_rank[C08_LONG];
   for (unsigned i = 0; i < C08_LONG; ++i) { keys[i] = (int)(nondet_ulong() & 0xffff); by_rank[rank[i]] = keys[i]; }
   for (unsigned r = 0; r + 1 < C08_LONG; ++r) vp_assume(by_rank[r] < by_rank[r + 1]);        // the order type; values stay symbolic
   if (owning) {
      using Tree = Shape<rb::container<int>, rb::node<int>>; Tree* t = new Tree; int* where[C08_LONG];
      auto cmp = [](const rb::node<int>& a, const rb::node<int>& b) { return IntCmp{}(a.data, b.data); };
      for (unsigned i = 0; i < C08_LONG; ++i) { where[i] = t->insert(keys[i], IntCmp{}); vp_assert(t->size() == (std::ptrdiff_t)i + 1, 4); check_shape(t->top(), i + 1, cmp, 10); }
      for (unsigned i = 0; i < C08_LONG; ++i) vp_assert(t->find(keys[i], IntCmp{}) == where[i], 5);
   } else {
      using Tree = Shape<rb::chain<INode>, INode>; Tree* t = new Tree; INode* nodes[C08_LONG];
      auto ncmp = [](const INode& a, const INode& b) { return IntCmp{}(a.key, b.key); };
      auto kcmp = [](const INode& a, int k) { return IntCmp{}(a.key, k); };
      for (unsigned i = 0; i < C08_LONG; ++i) { nodes[i] = new INode; nodes[i]->key = keys[i]; t->insert(nodes[i], ncmp); vp_assert(t->size() == (std::ptrdiff_t)i + 1, 4); check_shape(t->top(), i + 1, ncmp, 10); }
      for (unsigned i = 0; i < C08_LONG; ++i) vp_assert(t->find(keys[i], kcmp) == nodes[i], 5);
   }
   vp_done();
}

// ---- (2) one inductive step from an arbitrary valid tree laid out on a complete skeleton of height H
namespace {
   // Generates exactly the valid red-black shapes of height <= C08_H: a subtree of black height bh is null (bh == 0), a black node
   // over two subtrees of black height bh-1, or - below a black parent - a red node over two black-rooted subtrees of black height bh.
   // Only valid choices fork; keys are symbolic and constrained afterwards to the search order.
   struct Gen {
      rb::node<int>* all[1 << C08_H]; int count = 0;
      rb::node<int>* make(rb::Color c, rb::node<int>* parent) {
         auto* n = new rb::node<int>; n->data = (int)(nondet_ulong() & 0xff); n->color = c; n->left() = nullptr; n->right() = nullptr; n->parent() = parent; all[count++] = n; return n;
      }
      rb::node<int>* gen(int bh, bool parent_red, int depth, rb::node<int>* parent) {
         // choices: 0 = black-rooted (null when bh == 0), 1 = red-rooted (only below a black parent)
         bool red = !parent_red && depth <= C08_H && vp_flag();
         if (red) { auto* n = make(rb::Color::Red, parent); n->left() = gen(bh, true, depth + 1, n); n->right() = gen(bh, true, depth + 1, n); return n; }
         if (bh == 0) return nullptr;
         if (depth > C08_H) { vp_assume(false); return nullptr; }
         auto* n = make(rb::Color::Black, parent); n->left() = gen(bh - 1, false, depth + 1, n); n->right() = gen(bh - 1, false, depth + 1, n); return n;
      }
   };
}
extern "C" void h_own_step(void) {
   using Node = rb::node<int>;
   using Tree = Shape<rb::container<int>, Node>;
   Tree* t = new Tree;
   Gen g; int bh = (int)vp_pick(C08_H + 1);
   Node* root = g.gen(bh, true, 1, nullptr);                 // "parent red" forbids a red root
   int count = g.count;
   t->set_top(root); t->set_count(count);
   // the representation invariant: same predicate as asserted afterwards (shape holds by construction, keys are constrained here)
   {
      Walk<Node> w; w.go(t->top(), nullptr, 1);
      bool valid = w.ok && w.n == count;
      for (int i = 0; i + 1 < w.n; ++i) valid = valid & (w.order[i]->data > w.order[i + 1]->data);      // one constraint, no forking
      vp_assume(valid);
   }
   Node** slot = g.all; bool present[1 << C08_H]; for (int i = 0; i < (1 << C08_H); ++i) present[i] = i < count;
   constexpr int SLOTS = (1 << C08_H) - 1;
   int key = (int)(nondet_ulong() & 0xff);
   bool dup = false;
   for (int i = 0; i <= SLOTS; ++i) if (present[i]) dup = dup | (slot[i]->data == key);
   int* p = t->insert(key, IntCmp{});
   vp_assert(*p == key, 1);
   vp_assert(t->size() == count + (dup ? 0 : 1), 4);
   auto cmp = [](const Node& a, const Node& b) { return IntCmp{}(a.data, b.data); };
   check_shape(t->top(), count + (dup ? 0 : 1), cmp, 10);
   for (int i = 0; i <= SLOTS; ++i) if (present[i]) vp_assert(t->find(slot[i]->data, IntCmp{}) == &slot[i]->data, 5);
   vp_assert(t->find(key, IntCmp{}) == p, 7);
   vp_done();
}
