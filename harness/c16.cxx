// C16 — substitutions behave as finite maps from parameters to expressions.
#include "common.h"
#ifndef C16_K
#define C16_K 4
#endif
namespace {
   struct World {
      impl::Lexicon lx;
      impl::Translation_unit unit { lx };
      impl::Mapping* map;
      const ipr::Parameter* P[3];
      const ipr::Expr* V[3];
      World() {
         map = lx.make_mapping(*unit.global_region(), Mapping_level{ 1 });
         P[0] = map->param(lx.get_identifier(u8"a"), lx.int_type());
         P[1] = map->param(lx.get_identifier(u8"b"), lx.int_type());
         P[2] = map->param(lx.get_identifier(u8"c"), lx.bool_type());
         V[0] = &lx.true_value(); V[1] = &lx.false_value(); V[2] = lx.make_literal(lx.int_type(), u8"7");
      }
   };
}
extern "C" void h_elementary(void) {
   World* w = new World;
   unsigned p = vp_pick(3), v = vp_pick(3), q = vp_pick(3);
   const ipr::Substitution& s = *w->lx.make_elementary_substitution(*w->P[p], *w->V[v]);
   const ipr::Expr& r = s[*w->P[q]];
   if (q == p) vp_assert(&r == w->V[v], 1);          // in the domain: the bound expression
   else vp_assert(&r == w->P[q], 2);                 // outside: the parameter itself
   // a parameter of another mapping is outside the domain too
   impl::Mapping* other = w->lx.make_mapping(*w->unit.global_region(), Mapping_level{ 2 });
   const ipr::Parameter& z = *other->param(w->lx.get_identifier(u8"a"), w->lx.int_type());
   vp_assert(&s[z] == &z, 3);
   vp_done();
}
extern "C" void h_general(void) {
   World* w = new World;
   impl::General_substitution* g = w->lx.make_general_substitution();
   int last[3] = { -1, -1, -1 };
   // the empty substitution is the identity
   for (int q = 0; q < 3; ++q) vp_assert(&(*g)[*w->P[q]] == w->P[q], 4);
   for (int k = 0; k < C16_K; ++k) {
      unsigned p = vp_pick(3), v = vp_pick(3);
      { const ipr::Expr& before = (*g)[*w->P[p]]; vp_assert(last[p] >= 0 ? &before == w->V[last[p]] : &before == w->P[p], 8); }     // looked up immediately before ...
      impl::General_substitution& r = g->subst(*w->P[p], *w->V[v]);
      vp_assert(&r == g, 5);
      last[p] = (int)v;
      vp_assert(&(*g)[*w->P[p]] == w->V[v], 9);                                                                                   // ... and immediately after the (re)binding
      const ipr::Substitution& s = *g;
      for (int q = 0; q < 3; ++q) {
         const ipr::Expr& e = s[*w->P[q]];
         if (last[q] >= 0) vp_assert(&e == w->V[last[q]], 6);     // latest binding wins
         else vp_assert(&e == w->P[q], 7);                        // unbound: unchanged
      }
   }
   vp_done();
}
