// C16 — substitutions behave as finite maps from parameters to expressions.
#include "common.h"
#ifndef C16_K
#define C16_K 4
#endif
namespace {
   struct World {
      impl::Lexicon lx;
      impl::Translation_unit unit { lx };
      impl::Mapping* map;
      const ipr::Parameter* P[3];
      const ipr::Expr* V[3];
      // value number v for a binding of parameter p: two ordinary expressions, the parameter itself (an identity binding is a binding
      // like any other: it replaces an earlier one) and another parameter of the same mapping
      const ipr::Expr* value(unsigned p, unsigned v) const { return v == 0 ? V[0] : v == 1 ? V[2] : v == 2 ? static_cast<const ipr::Expr*>(P[p]) : static_cast<const ipr::Expr*>(P[(p + 1) % 3]); }
      // parameters of a sibling mapping at the same nesting level: same (level, position) as P[0] and P[1], different nodes
      impl::Mapping* sibling; const ipr::Parameter* Q[2];
      World() {
         sibling = lx.make_mapping(*unit.global_region(), Mapping_level{ 1 });
         Q[0] = sibling->param(lx.get_identifier(u8"a"), lx.int_type()); Q[1] = sibling->param(lx.get_identifier(u8"b"), lx.int_type());
         map = lx.make_mapping(*unit.global_region(), Mapping_level{ 1 });
         P[0] = map->param(lx.get_identifier(u8"a"), lx.int_type());
         P[1] = map->param(lx.get_identifier(u8"b"), lx.int_type());
         P[2] = map->param(lx.get_identifier(u8"c"), lx.bool_type());
         V[0] = &lx.true_value(); V[1] = &lx.false_value(); V[2] = lx.make_literal(lx.int_type(), u8"7");
      }
   };
}
extern "C" void h_elementary(void) {
   World* w = new World;
   unsigned p = vp_pick(3), v = vp_pick(4), q = vp_pick(3);
   const ipr::Substitution& s = *w->lx.make_elementary_substitution(*w->P[p], *w->value(p, v));
   const ipr::Expr& r = s[*w->P[q]];
   if (q == p) vp_assert(&r == w->value(p, v), 1);          // in the domain: the bound expression
   else vp_assert(&r == w->P[q], 2);                 // outside: the parameter itself
   // a parameter of another mapping is outside the domain too
   impl::Mapping* other = w->lx.make_mapping(*w->unit.global_region(), Mapping_level{ 2 });
   const ipr::Parameter& z = *other->param(w->lx.get_identifier(u8"a"), w->lx.int_type());
   vp_assert(&s[z] == &z, 3);
   vp_done();
}
extern "C" void h_general(void) {
   World* w = new World;
   impl::General_substitution* g = w->lx.make_general_substitution();
   const ipr::Expr* last[5] = { nullptr, nullptr, nullptr, nullptr, nullptr };
   const ipr::Parameter* all[5] = { w->P[0], w->P[1], w->P[2], w->Q[0], w->Q[1] };      // parameters of two parameter lists at the same level
   // the empty substitution is the identity
   for (int q = 0; q < 5; ++q) vp_assert(&(*g)[*all[q]] == all[q], 4);
   for (int k = 0; k < C16_K; ++k) {
      unsigned p = vp_pick(4), v = vp_pick(4);                                             // P[0], P[1], P[2] or the sibling's first parameter
      unsigned pi = p < 3 ? p : 3;
      const ipr::Expr* val = p < 3 ? w->value(p, v) : (v == 2 ? static_cast<const ipr::Expr*>(all[3]) : v == 3 ? static_cast<const ipr::Expr*>(all[0]) : w->value(0, v));
      { const ipr::Expr& before = (*g)[*all[pi]]; vp_assert(last[pi] ? &before == last[pi] : &before == all[pi], 8); }     // looked up immediately before ...
      impl::General_substitution& r = g->subst(*all[pi], *val);
      vp_assert(&r == g, 5);
      last[pi] = val;
      vp_assert(&(*g)[*all[pi]] == last[pi], 9);                                                                                   // ... and immediately after the (re)binding
      const ipr::Substitution& s = *g;
      for (int q = 0; q < 5; ++q) {
         const ipr::Expr& e = s[*all[q]];
         if (last[q]) vp_assert(&e == last[q], 6);                // latest binding wins
         else vp_assert(&e == all[q], 7);                         // unbound: unchanged (also a parameter with the level and position of a bound one)
      }
   }
   vp_done();
}
// two general substitutions requested up front and filled afterwards (the way a front end prepares "explicit" and "deduced" arguments),
// and an elementary one alongside: each is its own finite map
#ifndef C16_K2
#define C16_K2 3
#endif
extern "C" void h_two_substitutions(void) {
   World* w = new World;
   impl::General_substitution* g[2] = { w->lx.make_general_substitution(), w->lx.make_general_substitution() };
   vp_assert(g[0] != g[1], 20);                                   // a generative constructor: every call yields a fresh object
   const ipr::Expr* last[2][3] = { };
   const ipr::Substitution& el = *w->lx.make_elementary_substitution(*w->P[0], *w->V[1]);
   for (int k = 0; k < C16_K2; ++k) {
      unsigned i = vp_pick(2), p = vp_pick(3), v = vp_pick(3);
      const ipr::Expr* val = v == 0 ? w->V[0] : v == 1 ? w->V[2] : static_cast<const ipr::Expr*>(w->P[(p + 1) % 3]);
      g[i]->subst(*w->P[p], *val); last[i][p] = val;
      for (int j = 0; j < 2; ++j) for (int q = 0; q < 3; ++q) {
         const ipr::Expr& e = (*g[j])[*w->P[q]];
         vp_assert(&e == (last[j][q] ? last[j][q] : static_cast<const ipr::Expr*>(w->P[q])), 21);
      }
      vp_assert(&el[*w->P[0]] == w->V[1] && &el[*w->P[1]] == w->P[1], 22);
   }
   vp_done();
}
// a full domain first: all five parameters of the two lists are bound (in ascending or descending order), then C16_K2 symbolic rebindings;
// the latest binding of every parameter wins whatever the number of bindings already held
extern "C" void h_rebinding_full(void) {
   World* w = new World;
   impl::General_substitution* g = w->lx.make_general_substitution();
   const ipr::Parameter* all[5] = { w->P[0], w->P[1], w->P[2], w->Q[0], w->Q[1] }; const ipr::Expr* last[5];
   bool descending = vp_flag();
   for (int i = 0; i < 5; ++i) { int k = descending ? 4 - i : i; last[k] = w->V[k % 3]; g->subst(*all[k], *last[k]); }
   for (int step = 0; step < C16_K2; ++step) {
      unsigned p = vp_pick(5), v = vp_pick(3);
      last[p] = v == 0 ? w->V[(p + 1) % 3] : v == 1 ? static_cast<const ipr::Expr*>(all[p]) : static_cast<const ipr::Expr*>(all[(p + 1) % 5]);
      g->subst(*all[p], *last[p]);
      for (int q = 0; q < 5; ++q) vp_assert(&(*g)[*all[q]] == last[q], 30);
   }
   vp_done();
}

// many bindings pending before the first lookup: C16_N parameters of one mapping are bound (ascending, descending or interleaved from both
// ends), all are bound again to another value in another order, one symbolically chosen parameter is bound a third time; only then is the
// substitution read.  Whatever the implementation defers until the first lookup must keep the latest binding of each parameter for
// every number of pending bindings (thresholds inside sorting / merging / spilling steps lie between 8 and 32 entries).
#ifndef C16_N
#define C16_N 24
#endif
extern "C" void h_many_pending(void) {
   World* w = new World;
   impl::Mapping* big = w->lx.make_mapping(*w->unit.global_region(), Mapping_level{ 1 });
   const ipr::Parameter* all[C16_N]; const ipr::Expr* last[C16_N];
   char nm[3] = { 'p', 'a', 0 };
   for (int i = 0; i < C16_N; ++i) { nm[1] = static_cast<char>('a' + i); all[i] = big->param(w->lx.get_identifier(reinterpret_cast<const char8_t*>(nm)), w->lx.int_type()); }
   impl::General_substitution* g = w->lx.make_general_substitution();
   unsigned order = vp_pick(3);
   auto slot = [&](int i) { return order == 0 ? i : order == 1 ? C16_N - 1 - i : (i % 2 ? C16_N - 1 - i / 2 : i / 2); };
   for (int i = 0; i < C16_N; ++i) { int k = slot(i); last[k] = w->V[k % 3]; g->subst(*all[k], *last[k]); }
   for (int i = C16_N - 1; i >= 0; --i) { int k = slot(i); last[k] = w->V[(k + 1) % 3]; g->subst(*all[k], *last[k]); }
   unsigned p = vp_pick(C16_N), v = vp_pick(2);
   last[p] = v == 0 ? w->V[(p + 2) % 3] : static_cast<const ipr::Expr*>(all[p]);
   g->subst(*all[p], *last[p]);
   for (int q = 0; q < C16_N; ++q) vp_assert(&(*g)[*all[q]] == last[q], 40);
   // a further rebinding after the first read, and a parameter outside the domain
   unsigned p2 = vp_pick(C16_N);
   last[p2] = w->V[p2 % 3]; g->subst(*all[p2], *last[p2]);
   for (int q = 0; q < C16_N; ++q) vp_assert(&(*g)[*all[q]] == last[q], 41);
   vp_assert(&(*g)[*w->P[0]] == w->P[0], 42);
   vp_done();
}
