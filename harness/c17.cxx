// C17 — printed text depends only on graph structure and printer options.
#define VP_WITH_IO
#include "fingerprint.h"
#include "vpstream.h"
#ifndef C17_FULL
#define C17_FULL 0
#endif
#ifndef C17_SYMBOLIC_LITERAL
#define C17_SYMBOLIC_LITERAL 0
#endif
namespace {
   struct Params {                      // everything the two constructions share: structure, spellings, literal bytes, locations, options
      unsigned tmpl;
      char8_t id[3][2]; unsigned idlen[3];
      char8_t lit[2]; unsigned litlen;
      uint32_t file, line, col;
      bool print_locations;
   };
   struct History {                     // everything in which the two constructions may differ
      unsigned name_order;              // permutation of the creation order of the three names
      bool junk_before, junk_between, types_first, alt_swap;   // alt_swap: the two alternative types of the sum are first requested in the other order
   };
   const unsigned perms[6][3] = { {0,1,2}, {0,2,1}, {1,0,2}, {1,2,0}, {2,0,1}, {2,1,0} };

   struct Graph {
      impl::Lexicon lx; impl::Translation_unit unit { lx };
      const ipr::Identifier* N[3]; Tracker tracked;
      void junk() { lx.get_pointer(lx.get_reference(lx.double_type())); lx.get_identifier(u8"unrelated"); lx.make_literal(lx.long_type(), u8"999"); lx.make_class(*unit.global_region()); }
      // template 6: every located node gets its own line (100 + k); nlocated counts them
      int nlocated = 0;
      // p.line == 0: one file, every located node its own line (100 + k); p.line == 1: one line and column, every located node its own file (20 + k)
      template<class D> void locate_k(D* d, const Params& p) {
         if (p.line == 1) { d->src_locus.file = File_index{ 20u + nlocated }; d->src_locus.line = Line_number{ 100u }; }
         else { d->src_locus.file = File_index{ p.file }; d->src_locus.line = Line_number{ p.file ? 100u + nlocated : 0u }; }
         d->src_locus.column = Column_number{ p.col }; ++nlocated; }
      template<class D> void locate(D* d, const Params& p) { d->src_locus.file = File_index{ p.file }; d->src_locus.line = Line_number{ p.line }; d->src_locus.column = Column_number{ p.col }; }
      void build(const Params& p, const History& h) {
         auto& reg = *unit.global_region();
         if (h.junk_before) junk();
         const ipr::Type* ptr = nullptr; const ipr::Type* cq = nullptr;
         auto make_types = [&] { ptr = &lx.get_pointer(lx.char_type()); cq = &lx.get_qualified(lx.const_qualifier(), lx.int_type()); };
         const ipr::Type* alt0 = nullptr; const ipr::Type* alt1 = nullptr;
         if (h.alt_swap) { alt1 = &lx.get_pointer(lx.long_type()); alt0 = &lx.get_pointer(lx.short_type()); } else { alt0 = &lx.get_pointer(lx.short_type()); alt1 = &lx.get_pointer(lx.long_type()); }
         if (h.types_first) make_types();
         for (int k = 0; k < 3; ++k) { unsigned i = perms[h.name_order][k]; N[i] = &lx.get_identifier(util::word_view(p.id[i], p.idlen[i])); if (k == 0 && h.junk_between) junk(); }
         if (!h.types_first) make_types();
         const ipr::Expr& lit = *lx.make_literal(lx.int_type(), util::word_view(p.lit, p.litlen));
         switch (p.tmpl) {
         case 0: {       // variables with qualified / pointer types, a literal initializer, locations
            impl::Var* v = reg.declare_var(*N[0], *cq); v->init = &lit; locate(v, p);
            impl::Var* q = reg.declare_var(*N[1], *ptr); locate(q, p); q->init = lx.make_address(*lx.make_id_expr(*v));
            tracked.node<ipr::Var>(*v); break; }
         case 1: {       // a class with two fields, a base and a member function declaration
            impl::Class* c = lx.make_class(reg); c->id = N[0]; c->declare_base(lx.get_as_type(*lx.make_id_expr(*N[2])));
            c->declare_field(*N[1], *cq); c->declare_field(*N[2], *ptr);
            impl::Warehouse<ipr::Type> w; w.push_back(*cq); w.push_back(lx.bool_type());
            impl::Fundecl* mf = c->declare_fun(*N[1], lx.get_function(lx.get_product(w), lx.void_type()));
            impl::Parameter_list* pl = new impl::Parameter_list(c->body, Mapping_level{ 0 }); pl->add_member(*N[2], *cq); pl->add_member(*N[0], lx.bool_type()); mf->data.emplace<0>(pl);
            impl::Typedecl* td = reg.declare_type(*N[0], lx.class_type()); td->init = c; locate(td, p);
            tracked.node<ipr::Class>(*c); break; }
         case 2: {       // a function with parameters and a body: if / while / return / labeled statement / handler
            impl::Mapping* m = lx.make_mapping(reg, Mapping_level{ 0 });
            impl::Parameter* a = m->param(*N[1], lx.int_type()); impl::Parameter* b = m->param(*N[2], lx.bool_type()); b->init = &lx.true_value();
            impl::Block* body = lx.make_block(m->parameters().region(), lx.bool_type());
            body->add_stmt(*lx.make_if(*lx.make_id_expr(*a), *lx.make_return(*lx.make_id_expr(*b))));
            impl::While* wl = lx.make_while(); wl->control = lx.make_less(*lx.make_id_expr(*a), lit); wl->stmt = lx.make_expr_stmt(*lx.make_pre_increment(*lx.make_id_expr(*a)));
            body->add_stmt(*wl);
            body->add_stmt(*lx.make_labeled_stmt(lx.get_label(*N[0]), *lx.make_expr_stmt(lit)));
            impl::Handler* hd = body->new_handler(*N[0], *ptr); hd->body().add_stmt(*lx.make_return(lx.false_value()));
            m->body = body;
            impl::Warehouse<ipr::Type> w; w.push_back(lx.int_type()); w.push_back(lx.bool_type());
            auto& ft = lx.get_function(lx.get_product(w), lx.bool_type()); m->typing = &ft;
            impl::Fundecl* f = reg.declare_fun(*N[0], ft); f->data.emplace<1>(m); locate(f, p);
            tracked.node<ipr::Fundecl>(*f); tracked.node<ipr::Block>(*body); break; }
         case 3: {       // an enumeration and a namespace
            impl::Enum* e = lx.make_enum(reg, ipr::Enum::Kind::Scoped); e->id = N[0]; e->add_member(*N[1])->init = &lit; e->add_member(*N[2]);
            impl::Typedecl* td = reg.declare_type(*N[0], lx.enum_type()); td->init = e; locate(td, p);
            impl::Namespace* ns = lx.make_namespace(reg); ns->id = N[1]; ns->declare_var(*N[2], *cq);
            impl::Typedecl* nd = reg.declare_type(*N[1], lx.namespace_type()); nd->init = ns;
            tracked.node<ipr::Enum>(*e); break; }
         case 4: {       // classic expressions of many precedence levels
            const ipr::Expr& a = *lx.make_id_expr(*N[0]); const ipr::Expr& b = *lx.make_id_expr(*N[1]); const ipr::Expr& c = *lx.make_id_expr(*N[2]);
            const ipr::Expr& e1 = *lx.make_minus(*lx.make_mul(*lx.make_plus(a, b), c), lit);
            const ipr::Expr& e2 = *lx.make_conditional(*lx.make_or(*lx.make_and(a, *lx.make_not(b)), c), *lx.make_assign(a, b), *lx.make_comma(b, c));
            impl::Expr_list* args = lx.make_expr_list(); args->push_back(&e1); args->push_back(lx.make_array_ref(a, b));
            const ipr::Expr& e3 = *lx.make_call(*lx.make_dot(a, *lx.make_arrow(b, c)), *args);
            const ipr::Expr& e4 = *lx.make_deref(*lx.make_address(*lx.make_static_cast(*ptr, *lx.make_lshift(a, *lx.make_bitand(b, c)))));
            const ipr::Expr& e5 = *lx.make_equal(*lx.make_unary_minus(*lx.make_less(a, b)), *lx.make_sizeof(*lx.make_cast(*cq, c)));
            impl::Var* v = reg.declare_var(*N[0], lx.int_type()); v->init = &e2; locate(v, p);
            impl::Var* u = reg.declare_var(*N[1], lx.int_type()); u->init = &e3;
            impl::Var* t = reg.declare_var(*N[2], lx.int_type()); t->init = &e4;
            impl::Var* s = reg.declare_var(*N[2], lx.bool_type()); s->init = &e5;
            tracked.node<ipr::Var>(*v); break; }
         case 6: {       // a function body with local declarations that contain located nodes of their own, each with its own line
            impl::Mapping* m = lx.make_mapping(reg, Mapping_level{ 0 });
            impl::Parameter* a = m->param(*N[1], lx.int_type()); locate_k(a, p);
            impl::Block* body = lx.make_block(m->parameters().region(), lx.void_type());
            impl::Var* lv = body->lexical_region.declare_var(*N[2], *cq); lv->init = &lit; locate_k(lv, p); body->add_stmt(*lv);                       // a local variable
            impl::Class* c = lx.make_class(body->lexical_region); c->id = N[0];
            impl::Field* f0 = c->declare_field(*N[1], *cq); locate_k(f0, p); impl::Field* f1 = c->declare_field(*N[2], *ptr); locate_k(f1, p);      // members of a local class
            impl::Typedecl* td = body->lexical_region.declare_type(*N[0], lx.class_type()); td->init = c; locate_k(td, p); body->add_stmt(*td);
            impl::Enum* e = lx.make_enum(body->lexical_region, ipr::Enum::Kind::Scoped); e->id = N[1]; locate_k(e->add_member(*N[2]), p);                 // an enumerator of a local enumeration
            impl::Typedecl* ed = body->lexical_region.declare_type(*N[1], lx.enum_type()); ed->init = e; locate_k(ed, p); body->add_stmt(*ed);
            impl::Expr_stmt* es = lx.make_expr_stmt(*lx.make_assign(*lx.make_id_expr(*lv), *lx.make_id_expr(*a))); locate_k(es, p); body->add_stmt(*es);
            impl::Return* rt = lx.make_return(*lx.make_id_expr(*lv)); locate_k(rt, p);
            impl::Block* inner = lx.make_block(body->lexical_region); inner->add_stmt(*rt); locate_k(inner, p);
            body->add_stmt(*lx.make_if(*lx.make_id_expr(*a), *inner));
            m->body = body;
            impl::Warehouse<ipr::Type> w; w.push_back(lx.int_type());
            auto& ft = lx.get_function(lx.get_product(w), lx.void_type()); m->typing = &ft;
            impl::Fundecl* f = reg.declare_fun(*N[0], ft); f->data.emplace<1>(m); locate_k(f, p);
            tracked.node<ipr::Fundecl>(*f); tracked.node<ipr::Block>(*body); break; }
         default: {      // types: pointer, reference, array, function, pointer to member, product, qualified
            impl::Class* c = lx.make_class(reg); c->id = N[0];
            impl::Warehouse<ipr::Type> w; w.push_back(*ptr); w.push_back(lx.get_reference(*cq));
            auto& fn = lx.get_function(lx.get_product(w), lx.get_rvalue_reference(lx.double_type()));
            locate(reg.declare_var(*N[0], lx.get_array(*cq, lit)), p);
            reg.declare_var(*N[1], lx.get_pointer(fn));
            reg.declare_var(*N[2], lx.get_ptr_to_member(*c, lx.get_qualified(lx.volatile_qualifier() | lx.const_qualifier(), *ptr)));
            reg.declare_var(*N[1], lx.get_pointer(lx.get_pointer(lx.bool_type())));
            impl::Warehouse<ipr::Type> alts; alts.push_back(*alt0); alts.push_back(*alt1); alts.push_back(*alt0);          // a sum type (dynamic exception specification), listed order short, long, short
            reg.declare_var(*N[2], lx.get_pointer(lx.get_function(lx.get_product(w), lx.void_type(), lx.get_sum(alts))));
            tracked.node<ipr::Class>(*c); break; }
         }
         tracked.node<ipr::Scope>(reg.scope);
         tracked.snapshot();
      }
      // prints the whole unit with a fresh printer on a fresh stream; 0 = completed, 1 = logic_error
      // (the printer lives on the heap and dies after the print, so successive fresh printers are distinct objects, as in a client that keeps several)
      int print(bool locations, std::ostringstream*& os) { os = new std::ostringstream; Printer* pp = new Printer { lx, *os }; pp->print_locations = locations; int r = vp_outcome([&] { *pp << unit; }); delete pp; return r; }
   };
   History make_history() {
#if C17_FULL
      return History { vp_pick(6), vp_flag(), vp_flag(), vp_flag(), vp_flag() };
#else
      // quick tier: three of the six creation orders, one flag for both kinds of unrelated allocations
      static const unsigned orders[3] = { 5, 3, 1 }; bool junk = vp_flag();
      return History { orders[vp_pick(3)], junk, junk, vp_flag(), vp_flag() };
#endif
   }
   bool printable(char8_t c) { return (c >= u8'a' && c <= u8'z') || c == u8'_' || (c >= u8'A' && c <= u8'Z'); }
   void make_params(Params& p, unsigned ntmpl) {
      p.tmpl = vp_pick(ntmpl);
      // one identifier has a symbolic byte in its spelling (x?, ? over [A-Za-z_]); the other two are fixed and different from it
      p.idlen[0] = 2; p.id[0][0] = u8'x'; p.id[0][1] = (char8_t)nondet_ulong(); vp_assume(printable(p.id[0][1]));
      p.idlen[1] = 2; p.id[1][0] = u8'y'; p.id[1][1] = u8'1'; p.idlen[2] = 2; p.id[2][0] = u8'B'; p.id[2][1] = u8'_';
#if C17_SYMBOLIC_LITERAL
      p.litlen = 2; p.lit[0] = (char8_t)nondet_ulong(); p.lit[1] = u8'7'; vp_assume(p.lit[0] < u8'.' || p.lit[0] > u8'w');     // escaping classes fork in the printer
#else
      p.litlen = 2; p.lit[0] = u8'4'; p.lit[1] = u8'2';
#endif
   }
}
// two constructions of the same graph in two Lexicons, differing in creation order and unrelated allocations
extern "C" void h_same_text(void) {
   Params p; make_params(p, 7);
   uint64_t loc = nondet_ulong(); p.file = uint32_t(loc) & 0xffff; p.line = uint32_t(loc >> 16) & 0xffff; p.col = uint32_t(loc >> 32) & 0xffff;      // symbolic locations (numbers compared as terms)
   p.print_locations = vp_flag();
   History ha { 0, false, false, true, false }, hb = make_history();
   Graph* a = new Graph; a->build(p, ha);
   Graph* b = new Graph; b->build(p, hb);
   std::ostringstream *oa, *ob, *oa2;
   int ra = a->print(p.print_locations, oa), rb = b->print(p.print_locations, ob);
   vp_assert(ra == rb && ra != 2, 1);
   vp_assert(vp_streams_equal(oa, ob), 2);                         // byte-identical text
   int ra2 = a->print(p.print_locations, oa2);
   vp_assert(ra2 == ra && vp_streams_equal(oa, oa2), 3);           // printing again with a fresh printer reproduces the text
   a->tracked.recheck(4); b->tracked.recheck(4);                   // and leaves the graph untouched
   vp_done();
}
// locations appear when, and only when, location printing is enabled (and the node carries one)
extern "C" void h_locations(void) {
   Params p; make_params(p, 6);
   bool has_file = vp_flag(); p.file = has_file ? 7 : 0; p.line = 8; p.col = vp_flag() ? 9 : 0; p.print_locations = vp_flag();
   History h { 0, false, false, true, false };
   Graph* a = new Graph; a->build(p, h);
   Params q = p; q.file = 0; q.line = 0; q.col = 0;
   Graph* plain = new Graph; plain->build(q, h);                   // the same graph without any location
   std::ostringstream *oa, *op;
   int ra = a->print(p.print_locations, oa), rp = plain->print(true, op);
   vp_assert(ra == rp && ra == 0, 10);
   bool expect = p.print_locations && has_file;
   vp_assert(vp_stream_contains(oa, p.col ? "F7:8:9 " : "F7:8 ") == expect, 11);
   vp_assert(vp_streams_equal(oa, op) == !expect, 12);             // otherwise exactly the text of the location-free graph
   vp_done();
}
// every located node of a function body with local declarations (parameter, local variable, members of a local class, enumerator of a
// local enumeration, the declaration statements themselves, expression / return statements, an inner block, the function): its own
// location appears when, and only when, location printing is enabled
extern "C" void h_locations_each(void) {
   Params p; make_params(p, 1); p.tmpl = 6;
   // the literal initializer of the local variable (printed before most of the locations) has one byte of each escaping class of the printer
   static const char8_t classes[] = { u8'4', 0x05, u8'\n', u8'\\', u8'"', 0x7f, 0x01, 0x1b, u8'\t', 0x80 };
   p.lit[0] = classes[vp_pick(sizeof classes)];
   p.file = 7; p.line = vp_flag() ? 1 : 0; p.col = vp_flag() ? 9 : 0; p.print_locations = vp_flag();      // distinct lines in one file, or one line and column in distinct files
   History h { 0, false, false, true, false };
   Graph* a = new Graph; a->build(p, h);
   std::ostringstream* oa; int ra = a->print(p.print_locations, oa);
   vp_assert(ra == 0 && a->nlocated >= 10, 20);
   for (int k = 0; k < a->nlocated; ++k) {
      char needle[16] = "F7:100"; int n = 6;
      if (p.line == 1) { needle[1] = char('0' + (20 + k) / 10); needle[2] = char('0' + (20 + k) % 10); needle[3] = ':'; needle[4] = '1'; needle[5] = '0'; needle[6] = '0'; n = 7; }
      else { needle[4] = char('0' + (100 + k) / 10 % 10); needle[5] = char('0' + (100 + k) % 10); }
      if (p.col) { needle[n++] = ':'; needle[n++] = '9'; } needle[n++] = ' '; needle[n] = 0;
      vp_assert(vp_stream_contains(oa, needle) == p.print_locations, 21);
      vp_observe(100 + k, vp_stream_contains(oa, needle));
   }
   vp_done();
}
// a Lexicon that lived and died earlier: a ghost graph of the same template with a plain literal is built, printed and destroyed; graph b is
// then built by an allocator that hands the ghost's blocks out again (engine bound alloc_reuse; natively: malloc), so b's nodes sit at the
// ghost's addresses, with a literal that needs escaping; graph a (built before the ghost, at fresh addresses) is the reference
extern "C" void h_after_ghost(void) {
   Params p; make_params(p, 7);
   static const char8_t classes[] = { u8'4', 0x05, u8'\n', u8'\\', u8'"', 0x7f, 0x01, u8'\t' };
   p.lit[0] = classes[vp_pick(sizeof classes)];
   p.file = 7; p.line = 8; p.col = 9; p.print_locations = vp_flag();
   History h { 0, false, false, true, false };
   Graph* a = new Graph; a->build(p, h);
   { Params q = p; q.lit[0] = u8'4'; Graph* ghost = new Graph; ghost->build(q, h); std::ostringstream* og; ghost->print(p.print_locations, og); delete ghost; }
   Graph* b = new Graph; b->build(p, h);
   std::ostringstream *oa, *ob;
   int ra = a->print(p.print_locations, oa), rb = b->print(p.print_locations, ob);
   vp_assert(ra == rb && ra != 2, 30);
   vp_assert(vp_streams_equal(oa, ob), 31);
   vp_done();
}
