// C14 — missing or out-of-range data raises a logic error, never undefined behaviour.
// Memory safety itself is the engine's job: every load/store of every path is a checked access (null, unmapped, out of bounds,
// freed, dead stack), natively AddressSanitizer + UBSan on replay.
#include "zoo.h"
#include "categories.h"       // generated from include/ipr/node-category on every run
#include <type_traits>
namespace {
   template<class I> struct category_of;
#define VP_CATOF(K) template<> struct category_of<ipr::K> { static constexpr ipr::Category_code value = ipr::Category_code::K; };
   VP_CATEGORIES(VP_CATOF)
#undef VP_CATOF
   template<class T> struct Peek : ipr::Sequence<T> { using ipr::Sequence<T>::get; };
   template<class T> const T& at(const ipr::Sequence<T>& s, std::size_t i) { return (s.*&Peek<T>::get)(i); }

   template<class T> void deref(const T& x) {
      if constexpr (std::is_base_of_v<ipr::Node, T>) {
         volatile auto c = x.category; (void)c;
         // a result declared as a leaf interface class is an object of that class (a reference to something else is not a valid result)
         if constexpr (requires { category_of<T>::value; }) vp_assert(x.category == category_of<T>::value, 7);
      }
      else { volatile const void* p = &x; (void)p; }
   }
   template<class T> struct is_optional : std::false_type { };
   template<class T> struct is_optional<ipr::Optional<T>> : std::true_type { };
   template<class T> struct seq_elem { };
   template<class T> std::true_type is_seq_f(const ipr::Sequence<T>*);
   std::false_type is_seq_f(...);
   template<class T> constexpr bool is_seq = decltype(is_seq_f(static_cast<const std::remove_reference_t<T>*>(nullptr)))::value;

   template<class T> void walk(const ipr::Sequence<T>& s) {
      std::size_t n = s.size(); std::size_t k = 0;
      for (auto it = s.begin(); it != s.end(); ++it, ++k) { if (k > 8) break; deref(*it); }
      vp_assert(k == n || k > 8, 3);                                         // iteration visits exactly size() elements
      int out = vp_outcome([&] { deref(at(s, n)); });                        // one past the end is refused with a logic_error
      vp_assert(out == 1, 4);
   }
   template<class R> void touch(R&& r) {
      using T = std::remove_cvref_t<R>;
      if constexpr (is_optional<T>::value) { if (r.is_valid()) deref(r.get()); else vp_assert(vp_outcome([&] { deref(r.get()); }) == 1, 5); }
      else if constexpr (is_seq<T>) walk(r);
      else if constexpr (std::is_class_v<T> && !std::is_empty_v<T>) deref(r);
      else { volatile auto c = sizeof r; (void)c; }
   }
   struct Sweep {
      void generative() { }
      int accessors = 0;
      template<class F> void attempt(F f) { ++accessors; vp_assert(vp_outcome(f) != 2, 1); }      // valid result or an exception derived from std::logic_error
#define VP_PROBE(name) if constexpr (requires { n.name(); }) attempt([&] { touch(n.name()); });
      template<class I> void node(const I& n) {
         VP_PROBE(operand) VP_PROBE(first) VP_PROBE(second) VP_PROBE(third) VP_PROBE(type) VP_PROBE(implementation) VP_PROBE(name) VP_PROBE(transfer) VP_PROBE(linkage)
         VP_PROBE(text) VP_PROBE(value) VP_PROBE(span) VP_PROBE(enclosing) VP_PROBE(owner) VP_PROBE(body) VP_PROBE(bindings) VP_PROBE(global) VP_PROBE(string) VP_PROBE(characters) VP_PROBE(opname)
         VP_PROBE(target) VP_PROBE(template_name) VP_PROBE(args) VP_PROBE(object_type) VP_PROBE(mapping_decl) VP_PROBE(type_expr) VP_PROBE(elements) VP_PROBE(size) VP_PROBE(element_type)
         VP_PROBE(bound) VP_PROBE(expr) VP_PROBE(source) VP_PROBE(throws) VP_PROBE(points_to) VP_PROBE(containing_type) VP_PROBE(member_type) VP_PROBE(qualifiers) VP_PROBE(main_variant)
         VP_PROBE(refers_to) VP_PROBE(region) VP_PROBE(scope) VP_PROBE(members) VP_PROBE(bases) VP_PROBE(kind) VP_PROBE(base) VP_PROBE(mode) VP_PROBE(entity) VP_PROBE(parameters) VP_PROBE(result)
         VP_PROBE(requirement) VP_PROBE(attributes) VP_PROBE(eh_specification) VP_PROBE(specifiers) VP_PROBE(captures) VP_PROBE(storage) VP_PROBE(delimiters) VP_PROBE(resolution) VP_PROBE(arguments)
         VP_PROBE(exception) VP_PROBE(member) VP_PROBE(function) VP_PROBE(derived) VP_PROBE(initializer) VP_PROBE(operation) VP_PROBE(condition) VP_PROBE(then_expr) VP_PROBE(else_expr)
         VP_PROBE(pattern) VP_PROBE(substitution) VP_PROBE(instance) VP_PROBE(global_requested) VP_PROBE(placement) VP_PROBE(level) VP_PROBE(phases) VP_PROBE(expression) VP_PROBE(targets)
         VP_PROBE(names) VP_PROBE(designators) VP_PROBE(nominated_scope) VP_PROBE(incantation) VP_PROBE(unit_location) VP_PROBE(source_location) VP_PROBE(annotation) VP_PROBE(label) VP_PROBE(stmt)
         VP_PROBE(handlers) VP_PROBE(try_block) VP_PROBE(inits) VP_PROBE(block) VP_PROBE(consequence) VP_PROBE(alternative) VP_PROBE(increment) VP_PROBE(variable) VP_PROBE(sequence) VP_PROBE(from)
         VP_PROBE(iteration) VP_PROBE(home_region) VP_PROBE(lexical_region) VP_PROBE(master) VP_PROBE(decl_set) VP_PROBE(primary_template) VP_PROBE(specializations) VP_PROBE(mapping)
         VP_PROBE(definition) VP_PROBE(position) VP_PROBE(default_value) VP_PROBE(precision) VP_PROBE(message) VP_PROBE(main) VP_PROBE(attendant) VP_PROBE(how) VP_PROBE(declaration) VP_PROBE(what)
         VP_PROBE(concept_name) VP_PROBE(trailing_arguments) VP_PROBE(type_name) VP_PROBE(constraint) VP_PROBE(nothrow) VP_PROBE(flavor) VP_PROBE(suffix) VP_PROBE(term) VP_PROBE(species)
         VP_PROBE(indirectors) VP_PROBE(binding_mode) VP_PROBE(subobject) VP_PROBE(index) VP_PROBE(token) VP_PROBE(factor) VP_PROBE(terms) VP_PROBE(expander) VP_PROBE(elaboration) VP_PROBE(lexeme)
         VP_PROBE(global_namespace) VP_PROBE(imported_modules) VP_PROBE(parent_module) VP_PROBE(purview) VP_PROBE(exported_modules) VP_PROBE(exported_declarations) VP_PROBE(interface_unit)
         VP_PROBE(implementation_units) VP_PROBE(stems) VP_PROBE(context) VP_PROBE(callee) VP_PROBE(locus) VP_PROBE(spelling)
      }
#undef VP_PROBE
      void operands(bool) { }
      template<class N> void typed(const N&, const ipr::Type*) { }
   };
}
// every accessor of every interface class on every node of the zoo, in its freshly built state and after the zoo set its optional links
extern "C" void h_accessors(void) {
   unsigned total = zoo::count();
   zoo::World* w = new zoo::World;
   unsigned which = vp_pick(total);
   vp_observe(1, which);
   Sweep v;
   zoo::build(*w, which, v);
   vp_assert(v.accessors >= 1, 2);
   vp_done();
}
// every Sequence implementation: symbolic size 0..3, index symbolic over all 64 bits
extern "C" void h_sequence_index(void) {
   zoo::World* w = new zoo::World; auto& lx = w->lx;
   unsigned n = vp_pick(4); uint64_t i = nondet_ulong();
   impl::Warehouse<ipr::Type> wh; impl::Enum* e = lx.make_enum(*w->reg, ipr::Enum::Kind::Scoped); impl::Mapping* m = lx.make_mapping(*w->reg, Mapping_level{ 1 });
   impl::Namespace* ns = lx.make_namespace(*w->reg); impl::Expr_list* xl = lx.make_expr_list(); impl::Block* b = lx.make_block(*w->reg); impl::Class* c = lx.make_class(*w->reg);
   const ipr::Name* names[3] = { w->N[0], w->N[1], &lx.get_identifier(u8"third") };
   for (unsigned k = 0; k < n; ++k) { wh.push_back(*w->T[k]); e->add_member(*names[k]); m->param(*names[k], *w->T[k]); ns->declare_var(*names[k], *w->T[k]); xl->push_back(w->E[k]); b->new_handler(*names[k], *w->T[k]); c->declare_base(*w->T[k]); }
   const ipr::Product& p = lx.get_product(wh);
   auto probe = [&](auto& seq, std::size_t size, int id) {
      using S = std::remove_cvref_t<decltype(seq)>;
      const void* got = nullptr; const void* viaiter = nullptr;
      int out = vp_outcome([&] { got = &at(seq, i); });
      int out2 = vp_outcome([&] { viaiter = &*seq.position(i); });
      vp_assert(seq.size() == size, id);
      if (i < size) { vp_assert(out == 0 && out2 == 0 && got == viaiter && got != nullptr, id + 1); vp_assert(got == &at(seq, (std::size_t)vp_fork(i)), id + 2); }
      else vp_assert(out == 1 && out2 == 1, id + 3);                         // at or beyond size(): refused with a logic_error
      (void)sizeof(S);
   };
   probe(p.elements(), n, 10);                                                                 // ref_sequence (vector::at)
   probe(static_cast<const ipr::Enum&>(*e).members(), n, 20);                                  // obj_sequence (deque)
   probe(m->parameters().elements(), n, 30);                                                   // obj_list (forward_list)
   probe(static_cast<const ipr::Namespace&>(*ns).members(), n, 40);                            // decl_sequence
   probe(static_cast<const ipr::Expr_list&>(*xl).elements(), n, 50);
   probe(static_cast<const ipr::Product&>(static_cast<const ipr::Expr_list&>(*xl).type()).elements(), n, 60);     // typed_sequence
   probe(static_cast<const ipr::Enum&>(*e).scope().elements(), n, 70);                         // homogeneous scope
   probe(static_cast<const ipr::Block&>(*b).handlers(), n, 80);
   probe(static_cast<const ipr::Class&>(*c).bases(), n, 90);
   if (n > 0) {
      const ipr::Handler& h = *static_cast<const ipr::Block&>(*b).handlers().position(0);
      probe(h.body().handlers(), 0, 100);                                                      // empty_sequence
      probe(h.exception().decl_set(), 1, 110);                                                 // singleton_ref
      probe(h.body().region().enclosing().bindings().elements(), 1, 120);                      // singleton_obj behind a homogeneous scope
   }
   // Product::operator[] / Sum::operator[] are defined through position()
   int o = vp_outcome([&] { deref(p[i]); }); vp_assert(i < n ? o == 0 : o == 1, 130);
   vp_done();
}
// histories that interleave growth and reads: after every step the sequence must agree with a shadow array
#ifndef C14_K
#define C14_K 4
#endif
extern "C" void h_sequence_history(void) {
   zoo::World* w = new zoo::World; auto& lx = w->lx;
   unsigned kind = vp_pick(8);
   impl::Enum* e = lx.make_enum(*w->reg, ipr::Enum::Kind::Scoped); impl::Mapping* m = lx.make_mapping(*w->reg, Mapping_level{ 1 }); impl::Class* c = lx.make_class(*w->reg);
   impl::Block* b = lx.make_block(*w->reg); impl::Module* mod = w->own(new impl::Module(lx)); impl::Namespace* ns = lx.make_namespace(*w->reg); impl::Expr_list* xl = lx.make_expr_list();
   impl::Using_declaration* ud = lx.make_using_declaration();
   const ipr::Name* nm[C14_K]; char8_t buf[1];
   for (int i = 0; i < C14_K; ++i) { buf[0] = char8_t(u8'a' + i); nm[i] = &lx.get_identifier(util::word_view(buf, 1)); }
   const void* shadow[C14_K]; unsigned n = 0;
   auto size = [&]() -> std::size_t { switch (kind) {
      case 0: return static_cast<const ipr::Enum&>(*e).members().size(); case 1: return m->parameters().elements().size(); case 2: return static_cast<const ipr::Class&>(*c).bases().size();
      case 3: return static_cast<const ipr::Block&>(*b).handlers().size(); case 4: return static_cast<const ipr::Module&>(*mod).implementation_units().size();
      case 5: return static_cast<const ipr::Namespace&>(*ns).members().size(); case 6: return static_cast<const ipr::Expr_list&>(*xl).elements().size();
      default: return static_cast<const ipr::Using_declaration&>(*ud).designators().size(); } };
   auto get = [&](std::size_t i) -> const void* { switch (kind) {
      case 0: return &at(static_cast<const ipr::Enum&>(*e).members(), i); case 1: return &at(m->parameters().elements(), i); case 2: return &at(static_cast<const ipr::Class&>(*c).bases(), i);
      case 3: return &at(static_cast<const ipr::Block&>(*b).handlers(), i); case 4: return &at(static_cast<const ipr::Module&>(*mod).implementation_units(), i);
      case 5: return &at(static_cast<const ipr::Namespace&>(*ns).members(), i); case 6: return &at(static_cast<const ipr::Expr_list&>(*xl).elements(), i);
      default: return &at(static_cast<const ipr::Using_declaration&>(*ud).designators(), i); } };
   auto push = [&]() -> const void* { switch (kind) {
      case 0: return static_cast<const ipr::Enumerator*>(e->add_member(*nm[n])); case 1: return static_cast<const ipr::Parameter*>(m->param(*nm[n], *w->T[n % 3])); case 2: return static_cast<const ipr::Base_type*>(c->declare_base(*w->T[n % 3]));
      case 3: return static_cast<const ipr::Handler*>(b->new_handler(*nm[n], *w->T[n % 3])); case 4: return static_cast<const ipr::Module_unit*>(mod->make_unit());
      case 5: return static_cast<const ipr::Decl*>(ns->declare_var(*nm[n], *w->T[n % 3])); case 6: { const ipr::Expr* x = lx.make_id_expr(*nm[n]); xl->push_back(x); return x; }
      default: return ud->seq.push_back(*lx.make_scope_ref(*w->E[0], *w->E[1]), ipr::Using_declaration::Designator::Mode::Normal); } };
   for (int step = 0; step < C14_K; ++step) {
      unsigned op = vp_pick(4);
      if (op == 0 || n == 0) { shadow[n] = push(); ++n; }                                    // grow
      else if (op == 1) {                                                                     // positional read, index anywhere in 0..size (one past the end is refused)
         uint64_t i = nondet_ulong() & 7; vp_assume(i <= n); const void* got = nullptr;
         int out = vp_outcome([&] { got = get(i); });
         if (i < n) vp_assert(out == 0 && got == shadow[vp_fork(i)], 300); else vp_assert(out == 1, 301);
      }
      else if (op == 2) { const void* got = nullptr; int out = vp_outcome([&] { got = get(n - 1); }); vp_assert(out == 0 && got == shadow[n - 1], 302); }     // the last element
      else { for (unsigned i = 0; i < n; ++i) vp_assert(get(i) == shadow[i], 303); }                                                                      // full traversal
      vp_assert(size() == n, 304);
   }
   for (unsigned i = 0; i < n; ++i) vp_assert(get(n - 1 - i) == shadow[n - 1 - i], 305);      // backwards
   vp_done();
}
// partially built declarations: every link a front end sets after creation (definition, language linkage, lexical region, initializer,
// function parameters / mapping, template mapping) is symbolically set or left unset, on a declaration and on its redeclaration, and the
// definition link may designate either of them; then every accessor of both is swept.
extern "C" void h_partial_decls(void) {
   zoo::World* w = new zoo::World; auto& lx = w->lx;
   unsigned kind = vp_pick(8); bool redeclare = vp_flag();
   impl::Warehouse<ipr::Type> w1; w1.push_back(lx.int_type());
   const ipr::Function& ft = lx.get_function(lx.get_product(w1), lx.bool_type());
   impl::Warehouse<ipr::Type> w2; w2.push_back(lx.typename_type());
   const ipr::Forall& fa = lx.get_forall(lx.get_product(w2), lx.class_type());
   const ipr::Name& nm = *w->N[0];
   // the name may already be shared by a declaration of another kind (an ordinary function or a variable of another type)
   // ... or by a declaration of ANOTHER kind with the SAME name and type (e.g. `struct S; typedef struct S S;`): such a request must be
   // refused with a logic_error or produce declarations whose every accessor behaves
   unsigned shared = vp_pick(5);
   if (shared == 1) w->reg->declare_var(nm, lx.double_type()); else if (shared == 2) w->reg->declare_fun(nm, lx.get_function(lx.get_product(w1), lx.double_type()));
   Sweep v;
   if (shared >= 3) {
      const ipr::Type& same = kind <= 2 || kind == 4 ? static_cast<const ipr::Type&>(lx.int_type()) : kind == 3 ? lx.class_type() : kind == 5 ? static_cast<const ipr::Type&>(ft) : static_cast<const ipr::Type&>(fa);
      const ipr::Decl* other = nullptr;
      if (shared == 3) other = kind == 0 ? static_cast<const ipr::Decl*>(w->reg->declare_field(nm, same)) : static_cast<const ipr::Decl*>(w->reg->declare_var(nm, same));
      else other = kind == 3 ? static_cast<const ipr::Decl*>(w->reg->declare_var(nm, same)) : static_cast<const ipr::Decl*>(w->reg->declare_type(nm, same));
      const ipr::Decl* second = nullptr;
      int out = vp_outcome([&] { switch (kind) {
         case 0: second = w->reg->declare_var(nm, same); break; case 1: second = w->reg->declare_field(nm, same); break; case 2: second = w->reg->declare_bitfield(nm, same); break;
         case 3: second = w->reg->declare_type(nm, same); break; case 4: second = w->reg->declare_alias(nm, same); break; case 5: second = w->reg->declare_fun(nm, ft); break;
         case 6: second = w->reg->declare_primary_template(nm, fa); break; default: second = w->reg->declare_secondary_template(nm, fa); break; } });
      vp_assert(out != 2, 11);
      if (out == 0 && second) { v.template node<ipr::Decl>(*second); v.template node<ipr::Decl>(*other);
         switch (kind) { case 0: v.template node<ipr::Var>(*static_cast<const ipr::Var*>(second)); break; case 3: v.template node<ipr::Typedecl>(*static_cast<const ipr::Typedecl*>(second)); break;
                         case 5: v.template node<ipr::Fundecl>(*static_cast<const ipr::Fundecl*>(second)); break; case 6: case 7: v.template node<ipr::Template>(*static_cast<const ipr::Template*>(second)); break; default: break; } }
      vp_done(); return;
   }
   auto fill = [&](auto* first, auto* second, auto set_own) {
      using D = std::remove_pointer_t<decltype(first)>;
      unsigned def = vp_pick(redeclare ? 3 : 2);                     // the definition: unknown, the first declaration, the redeclaration
      if (def == 1) first->decl_data.master_data->def = *first; else if (def == 2) first->decl_data.master_data->def = *second;
      if (vp_flag()) first->decl_data.master_data->langlinkage = &lx.cxx_linkage();
      set_own(first); if (second) set_own(second);
      v.template node<typename D::Interface>(*first);
      if (second) v.template node<typename D::Interface>(*second);
   };
   auto lexreg = [&](auto* d) { if (vp_flag()) d->lexreg = w->reg; };
   switch (kind) {
   case 0: { auto* a = w->reg->declare_var(nm, lx.int_type()); auto* b = redeclare ? w->reg->declare_var(nm, lx.int_type()) : nullptr;
             fill(a, b, [&](impl::Var* d) { lexreg(d); if (vp_flag()) d->init = w->E[0]; }); break; }
   case 1: { auto* a = w->reg->declare_field(nm, lx.int_type()); auto* b = redeclare ? w->reg->declare_field(nm, lx.int_type()) : nullptr;
             fill(a, b, [&](impl::Field* d) { if (vp_flag()) d->init = w->E[0]; }); break; }
   case 2: { auto* a = w->reg->declare_bitfield(nm, lx.int_type()); auto* b = redeclare ? w->reg->declare_bitfield(nm, lx.int_type()) : nullptr;
             fill(a, b, [&](impl::Bitfield* d) { if (vp_flag()) d->length = w->E[1]; if (vp_flag()) d->init = w->E[0]; }); break; }
   case 3: { auto* a = w->reg->declare_type(nm, lx.class_type()); auto* b = redeclare ? w->reg->declare_type(nm, lx.class_type()) : nullptr;
             fill(a, b, [&](impl::Typedecl* d) { lexreg(d); if (vp_flag()) d->init = w->T[1]; }); break; }
   case 4: { auto* a = w->reg->declare_alias(nm, lx.int_type()); auto* b = redeclare ? w->reg->declare_alias(nm, lx.int_type()) : nullptr;
             fill(a, b, [&](impl::Alias* d) { if (vp_flag()) d->aliasee = w->E[1]; }); break; }
   case 5: { auto* a = w->reg->declare_fun(nm, ft); auto* b = redeclare ? w->reg->declare_fun(nm, ft) : nullptr;
             fill(a, b, [&](impl::Fundecl* d) { lexreg(d); unsigned how = vp_pick(3);       // nothing yet, its own parameter list, a mapping
                if (how == 1) d->data.template emplace<0>(w->own(new impl::Parameter_list(*w->reg, Mapping_level{ 0 })));
                else if (how == 2) d->data.template emplace<1>(lx.make_mapping(*w->reg, Mapping_level{ 0 })); }); break; }
   default: { bool primary = kind == 6;
             auto* a = primary ? w->reg->declare_primary_template(nm, fa) : w->reg->declare_secondary_template(nm, fa);
             auto* b = redeclare ? (primary ? w->reg->declare_primary_template(nm, fa) : w->reg->declare_secondary_template(nm, fa)) : nullptr;
             fill(a, b, [&](impl::Template* d) { lexreg(d); unsigned how = vp_pick(3);      // no mapping, a mapping without body, a mapping with body
                if (how) { impl::Mapping* m = lx.make_mapping(*w->reg, Mapping_level{ 1 }); if (how == 2) m->body = w->E[0]; d->init = m; } }); break; }
   }
   vp_assert(v.accessors >= 1, 6);
   vp_done();
}
// substitutions in every partially filled state: any subset of the parameters of two parameter lists bound (in either order), then
// every parameter looked up — inside the domain, below / above the bound positions, of the other list: a valid expression or a logic_error
extern "C" void h_substitution_lookups(void) {
   zoo::World* w = new zoo::World; auto& lx = w->lx;
   impl::Mapping* m1 = lx.make_mapping(*w->reg, Mapping_level{ 1 }); impl::Mapping* m2 = lx.make_mapping(*w->reg, Mapping_level{ 2 });
   const ipr::Parameter* P[5] = { m1->param(*w->N[0], *w->T[0]), m1->param(*w->N[1], *w->T[1]), m1->param(lx.get_identifier(u8"third"), *w->T[2]), m2->param(*w->N[0], *w->T[0]), m2->param(*w->N[1], *w->T[1]) };
   impl::General_substitution* g = lx.make_general_substitution();
   unsigned mask = vp_pick(32); bool descending = vp_flag();
   for (int i = 0; i < 5; ++i) { int k = descending ? 4 - i : i; if (mask & (1u << k)) g->subst(*P[k], *w->E[k % 3]); }
   const ipr::Substitution& s = *g;
   for (int k = 0; k < 5; ++k) {
      const ipr::Expr* r = nullptr; int out = vp_outcome([&] { r = &s[*P[k]]; deref(*r); });
      vp_assert(out != 2, 8);
      if (out == 0) vp_assert(r == ((mask & (1u << k)) ? w->E[k % 3] : static_cast<const ipr::Expr*>(P[k])), 9);
   }
   const ipr::Substitution& el = *lx.make_elementary_substitution(*P[1], *w->E[0]);
   for (int k = 0; k < 5; ++k) { const ipr::Expr* r = nullptr; int out = vp_outcome([&] { r = &el[*P[k]]; deref(*r); }); vp_assert(out != 2 && (out != 0 || r == (k == 1 ? w->E[0] : static_cast<const ipr::Expr*>(P[k]))), 10); }
   vp_done();
}
// a warehouse constructed with a size holds that many slots that were never set: reading them (through the warehouse, or through the
// product / sum built from it) is refused with a logic_error like any other link that was never set
extern "C" void h_presized_warehouse(void) {
   zoo::World* w = new zoo::World; auto& lx = w->lx;
   unsigned n = vp_pick(3), extra = vp_pick(2);
   impl::Warehouse<ipr::Type> wh(n); for (unsigned i = 0; i < extra; ++i) wh.push_back(*w->T[i]);
   const ipr::Product* p = nullptr; int made = vp_outcome([&] { p = &lx.get_product(wh); });
   vp_assert(made != 2, 12);
   if (made == 0) for (unsigned i = 0; i < n + extra; ++i) {
      const ipr::Type* t = nullptr; int out = vp_outcome([&] { t = &(*p)[i]; deref(*t); });
      vp_assert(out != 2 && (out != 0 || (i >= n && t == w->T[i - n])), 13);
   }
   vp_done();
}
// checked pointers and strings
extern "C" void h_checked(void) {
   ipr::Optional<ipr::Expr> none; VP_MUST_THROW_LOGIC(none.get(), 200); vp_assert(!none.is_valid() && !none, 201);
   util::ref<const ipr::Expr> r; VP_MUST_THROW_LOGIC(r.get(), 202);
   VP_MUST_THROW_LOGIC(util::check(static_cast<const int*>(nullptr)), 203);
   util::string::arena* ar = new util::string::arena; uint64_t len = nondet_ulong() & 15; uint64_t idx = nondet_ulong();
   const util::string* s = ar->make_string(u8"0123456789abcdef", vp_fork(len));
   char ch = 0; int out = vp_outcome([&] { ch = (*s)[(std::ptrdiff_t)idx]; });
   if (idx < len) vp_assert(out == 0 && ch == "0123456789abcdef"[vp_fork(idx)], 204); else vp_assert(out == 1, 205);
   vp_done();
}
