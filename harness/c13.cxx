// C13 — Lexicon constants are distinct, correctly spelled, self-describing, process-wide.
#include "common.h"
#ifndef C13_L
#define C13_L 18
#endif
namespace {
   struct Row { const ipr::Type& (ipr::Lexicon::*get)() const; const char8_t* spelling; };
   const Row rows[26] = {
      { &ipr::Lexicon::void_type, u8"void" }, { &ipr::Lexicon::bool_type, u8"bool" }, { &ipr::Lexicon::char_type, u8"char" },
      { &ipr::Lexicon::schar_type, u8"signed char" }, { &ipr::Lexicon::uchar_type, u8"unsigned char" }, { &ipr::Lexicon::wchar_t_type, u8"wchar_t" },
      { &ipr::Lexicon::char8_t_type, u8"char8_t" }, { &ipr::Lexicon::char16_t_type, u8"char16_t" }, { &ipr::Lexicon::char32_t_type, u8"char32_t" },
      { &ipr::Lexicon::short_type, u8"short" }, { &ipr::Lexicon::ushort_type, u8"unsigned short" }, { &ipr::Lexicon::int_type, u8"int" },
      { &ipr::Lexicon::uint_type, u8"unsigned int" }, { &ipr::Lexicon::long_type, u8"long" }, { &ipr::Lexicon::ulong_type, u8"unsigned long" },
      { &ipr::Lexicon::long_long_type, u8"long long" }, { &ipr::Lexicon::ulong_long_type, u8"unsigned long long" }, { &ipr::Lexicon::float_type, u8"float" },
      { &ipr::Lexicon::double_type, u8"double" }, { &ipr::Lexicon::long_double_type, u8"long double" }, { &ipr::Lexicon::ellipsis_type, u8"..." },
      { &ipr::Lexicon::typename_type, u8"typename" }, { &ipr::Lexicon::class_type, u8"class" }, { &ipr::Lexicon::union_type, u8"union" },
      { &ipr::Lexicon::enum_type, u8"enum" }, { &ipr::Lexicon::namespace_type, u8"namespace" } };
   inline bool spelled(const ipr::Name& n, const char8_t* s) {
      auto id = util::view<ipr::Identifier>(n);
      return s != nullptr && id != nullptr && id->string().characters() == util::word_view(s);
   }
   inline bool natural(const ipr::Transfer& t, const ipr::Lexicon& lx) {
      return t.linkage() == lx.cxx_linkage() && t.convention().name().what().size() == 0;
   }
}
// finite part: every accessor, every pair, two Lexicon instances
extern "C" void h_constants(void) {
   impl::Lexicon* a = new impl::Lexicon; impl::Lexicon* b = new impl::Lexicon;
   const ipr::Lexicon& lx = *a; const ipr::Lexicon& ly = *b;
   const ipr::Type* t[26];
   for (int i = 0; i < 26; ++i) {
      t[i] = &(lx.*rows[i].get)();
      vp_assert(spelled(t[i]->name(), rows[i].spelling), 1);                               // names itself with the documented spelling
      auto at = util::view<ipr::As_type>(*t[i]);
      vp_assert(at != nullptr && &at->expr() == t[i] && denote_builtin_type(*at), 2);      // its own underlying expression
      vp_assert(&t[i]->type() == &lx.typename_type(), 3);                                  // type `typename`
      vp_assert(natural(t[i]->transfer(), lx) && t[i]->transfer() == lx.int_type().transfer(), 4);
      vp_assert(t[i] == &(ly.*rows[i].get)(), 5);                                          // process-wide
   }
   for (int i = 0; i < 26; ++i) for (int j = i + 1; j < 26; ++j) vp_assert(t[i] != t[j], 6);   // 325 pairs
   struct { const ipr::Symbol* s; const ipr::Symbol* other; const char8_t* sp; const ipr::Type* ty; } syms[] = {
      { &lx.true_value(), &ly.true_value(), u8"true", &lx.bool_type() }, { &lx.false_value(), &ly.false_value(), u8"false", &lx.bool_type() },
      { &lx.nullptr_value(), &ly.nullptr_value(), u8"nullptr", nullptr }, { &lx.default_value(), &ly.default_value(), u8"default", nullptr },
      { &lx.delete_value(), &ly.delete_value(), u8"delete", &lx.void_type() } };
   for (auto& s : syms) {
      vp_assert(spelled(s.s->name(), s.sp), 7);
      vp_assert(s.s == s.other, 8);
      if (s.ty) vp_assert(&s.s->type() == s.ty, 9);
   }
   for (int i = 0; i < 5; ++i) for (int j = i + 1; j < 5; ++j) vp_assert(syms[i].s != syms[j].s, 10);
   // nullptr: type is decltype(nullptr), whose operand is nullptr itself
   auto dt = util::view<ipr::Decltype>(lx.nullptr_value().type());
   vp_assert(dt != nullptr && &dt->expr() == &lx.nullptr_value(), 11);
   vp_assert(&a->get_decltype(lx.nullptr_value()) == &lx.nullptr_value().type() && &b->get_decltype(ly.nullptr_value()) == &lx.nullptr_value().type(), 12);
   // linkages
   vp_assert(&lx.c_linkage() == &ly.c_linkage() && &lx.cxx_linkage() == &ly.cxx_linkage(), 13);
   vp_assert(lx.c_linkage() != lx.cxx_linkage(), 14);
   vp_assert(lx.c_linkage().language().what().characters() == util::word_view(u8"C") && lx.cxx_linkage().language().what().characters() == util::word_view(u8"C++"), 15);
   vp_done();
}
// routes from a symbolic spelling to a node: identifier -> as-type, word -> linkage, identifier -> label
extern "C" void h_routes(void) {
   impl::Lexicon* a = new impl::Lexicon; auto& lx = *a; const ipr::Lexicon& cl = lx;
   Word<C13_L> w; w.make();
   const ipr::Identifier& id = lx.get_identifier(w.view());
   // what was asked of the Lexicon before must not matter: the same spelling may first have been used as an (unresolved) id-expression
   // turned into a type, as an operator name, as a symbol name
   unsigned before = vp_pick(4);
   if (before == 1) (void)lx.get_as_type(*lx.make_id_expr(id));
   else if (before == 2) (void)lx.get_as_type(*lx.make_id_expr(id), lx.get_transfer_from_linkage(lx.cxx_linkage()));
   else if (before == 3) { (void)lx.get_operator(w.view()); (void)lx.get_symbol(id, lx.int_type()); }
   const ipr::As_type& t = lx.get_as_type(id);
   int hit = -1;
   for (int i = 0; i < 26; ++i) if (w.view() == util::word_view(rows[i].spelling)) hit = i;
   if (hit >= 0) { vp_assert(&t == &(cl.*rows[hit].get)(), 20); vp_assert(denote_builtin_type(t), 21); }   // the constant, not a look-alike
   else vp_assert(spelled(t.name(), nullptr) || &t.name() == &id, 22);                                         // otherwise: an extended type named by that very identifier
   const ipr::Linkage& k = lx.get_linkage(w.view());
   const ipr::Linkage& k2 = lx.get_linkage(lx.get_string(w.view()));
   bool isC = w.view() == util::word_view(u8"C"), isCxx = w.view() == util::word_view(u8"C++");
   vp_assert((&k == &cl.c_linkage()) == isC && (&k == &cl.cxx_linkage()) == isCxx, 23);
   vp_assert((&k2 == &cl.c_linkage()) == isC && (&k2 == &cl.cxx_linkage()) == isCxx, 24);
   const ipr::Symbol& lab = lx.get_label(id);
   vp_assert((&lab == &cl.default_value()) == (w.view() == util::word_view(u8"default")), 25);
   vp_done();
}
// spelling -> constant routes driven through one reused token buffer: a symbolic word (1..3 bytes), then a standard linkage spelling
// written into the same storage, then the first word again; each answer depends on the bytes presented, not on the storage
extern "C" void h_token_routes(void) {
   impl::Lexicon* a = new impl::Lexicon; auto& lx = *a; const ipr::Lexicon& cl = lx;
   Word<3> w; w.make(1);
   static char8_t token[4];
   auto put = [&](util::word_view v) { for (unsigned k = 0; k < v.size() && k < 4; ++k) token[k] = v[k]; return util::word_view(token, v.size()); };
   bool wC = w.view() == util::word_view(u8"C"), wCxx = w.view() == util::word_view(u8"C++");
   const ipr::Linkage& k1 = lx.get_linkage(put(w.view()));
   vp_assert((&k1 == &cl.c_linkage()) == wC && (&k1 == &cl.cxx_linkage()) == wCxx, 30);
   bool second_is_c = vp_flag();
   const ipr::Linkage& k2 = lx.get_linkage(put(second_is_c ? util::word_view(u8"C") : util::word_view(u8"C++")));
   vp_assert(&k2 == (second_is_c ? &cl.c_linkage() : &cl.cxx_linkage()), 31);                 // the constant, whatever was asked just before through the same storage
   const ipr::Linkage& k3 = lx.get_linkage(put(w.view()));
   vp_assert(&k3 == &k1 && k3.language().what().characters() == w.view(), 32);
   // the identifier route through the same storage
   const ipr::Identifier& i1 = lx.get_identifier(put(w.view()));
   const ipr::Identifier& i2 = lx.get_identifier(put(util::word_view(u8"int")));
   vp_assert(&i2 == &cl.int_type().name() && &lx.get_as_type(i2) == &cl.int_type(), 33);
   vp_assert(i1.string().characters() == w.view() && &lx.get_identifier(put(w.view())) == &i1, 34);
   vp_done();
}
