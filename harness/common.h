// Common prelude of every harness TU: unity include of the real sources (so that the anonymous-namespace internals
// the properties are anchored in are visible), the harness interface, and small helpers.
#ifndef VP_COMMON_H
#define VP_COMMON_H
#include "utility.cxx"      // found through -I<repo>/src
#include "impl.cxx"
#include "traversal.cxx"
#ifdef VP_WITH_IO
#include "io.cxx"
#endif
#include "vp.h"
#include <stdexcept>

using namespace ipr;

// outcome of evaluating f: 0 = returned normally, 1 = threw something derived from std::logic_error, 2 = threw anything else
template<class F> inline int vp_outcome(F f)
{
   try { f(); return 0; }
   catch (const std::logic_error&) { return 1; }
   catch (...) { return 2; }
}
#define VP_MUST_THROW_LOGIC(expr, id) vp_assert(vp_outcome([&] { (void)(expr); }) == 1, id)
#define VP_MUST_NOT_THROW(expr, id) vp_assert(vp_outcome([&] { (void)(expr); }) == 0, id)
#define VP_MAY_THROW_LOGIC(expr, id) vp_assert(vp_outcome([&] { (void)(expr); }) != 2, id)
#define VP_REFUSED(expr, id) vp_assert(vp_outcome([&] { (void)(expr); }) != 0, id)

// symbolic choice among n alternatives (n <= 2^bits): forks once per alternative
inline unsigned vp_pick(unsigned n)
{
   unsigned m = 1; while (m < n) m <<= 1;
   uint64_t x = nondet_ulong() & (m - 1);
   vp_assume(x < n);
   return (unsigned)vp_fork(x);
}
inline bool vp_flag() { return vp_fork(nondet_ulong() & 1) != 0; }

// A symbolic word: L fully symbolic bytes (all 256 values), symbolic length 0..L (forks on the length only).
template<int L> struct Word {
   char8_t buf[L ? L : 1];
   unsigned len;
   void make(unsigned minlen = 0) {
      len = minlen + vp_pick(L - minlen + 1);
      for (int k = 0; k < L; ++k) buf[k] = (char8_t)nondet_ulong();
   }
   util::word_view view() const { return util::word_view(buf, len); }
   bool same(const Word& o) const {
      if (len != o.len) return false;
      bool eq = true;
      for (unsigned k = 0; k < len; ++k) eq = eq & (buf[k] == o.buf[k]);     // no short-circuit: one symbolic term
      return eq;
   }
};

// first byte outside ['.','w'] : the reserved-word binary search then has one outcome per side (documented cut, see DESIGN C03)
inline void vp_not_reserved_range(char8_t c) { vp_assume(c < u8'.' || c > u8'w'); }

template<class T> inline void vp_sort_by_address(const T** a, int n)
{
   for (int i = 1; i < n; ++i) { const T* x = a[i]; int j = i; while (j > 0 && std::less<const void*>()(x, a[j - 1])) { a[j] = a[j - 1]; --j; } a[j] = x; }
}
#endif
