// The zoo: one node of every factory of the implementation, built from symbolically picked operands.
// Used by C02 (operands read back), C09 (types), C06 (category/visitor/view) and C14 (accessor sweep).
// zoo(w, which, v) builds the node(s) of factory number `which` and reports them to the visitor v:
//    v.template node<I>(n)          every node / form object, with its interface type I
//    v.operands(ok)                 conjunction of "accessor X returns the argument given for X" for that node
//    v.generative()                 the factory is of the make_ family: every call yields a fresh node
//    v.typed(n, expected)           expected type of an expression node; nullptr = no type was given: type() must throw logic_error
#ifndef VP_ZOO_H
#define VP_ZOO_H
#include "common.h"

namespace zoo {
   struct World {
      impl::Lexicon lx;
      impl::Translation_unit unit { lx };
      const ipr::Expr* E[3];
      const ipr::Type* T[3];
      const ipr::Identifier* I[2];
      const ipr::String* S[2];
      const ipr::Name* N[2];
      impl::Region* reg;
      struct Owned { void* p; void (*del)(void*); }; Owned owned[64]; int nowned = 0;      // harness-owned helper objects, released before the units and the Lexicon
      template<class T> T* own(T* p) { if (nowned < 64) owned[nowned++] = { p, [](void* q) { delete static_cast<T*>(q); } }; return p; }
      ~World() { while (nowned > 0) { --nowned; owned[nowned].del(owned[nowned].p); } }
      bool printable = false;                          // the nodes will be handed to the printer: enumerator arguments stay inside their enumeration
      bool concrete = false; unsigned tick = 0;        // concrete mode: picks are a deterministic counter (used for churn)
      unsigned pick(unsigned n) { return concrete ? (tick++ % n) : vp_pick(n); }
      uint64_t nd() { return concrete ? (0x9E3779B97F4A7C15ull * ++tick) : nondet_ulong(); }
      bool flag() { return concrete ? (tick++ & 1) != 0 : vp_flag(); }
      World() {
         E[0] = &lx.true_value(); E[1] = lx.make_literal(lx.int_type(), u8"42"); E[2] = &lx.nullptr_value();
         T[0] = &lx.int_type(); T[1] = &lx.get_pointer(lx.char_type()); T[2] = &lx.get_qualified(lx.const_qualifier() | lx.volatile_qualifier(), lx.bool_type());     // built-in, compound, cv-qualified
         I[0] = &lx.get_identifier(u8"foo"); I[1] = &lx.get_identifier(u8"bar");
         S[0] = &lx.get_string(u8"str0"); S[1] = &lx.get_string(u8"str1");
         N[0] = I[0]; N[1] = &lx.get_operator(u8"<=>");
         reg = unit.global_region();
      }
      // symbolic picks (two distinct candidates each, so that a swapped pair is visible)
      const ipr::Expr& e() { return *E[pick(2)]; }
      const ipr::Type& t() { return *T[pick(3)]; }
      const ipr::Identifier& id() { return *I[pick(2)]; }
      const ipr::String& s() { return *S[pick(2)]; }
      const ipr::Name& n() { return *N[pick(2)]; }
      // optional type: absent, or one of the three pool types
      Optional<ipr::Type> ot(const ipr::Type*& expected) { unsigned k = pick(4); expected = k ? T[k - 1] : nullptr; return k ? Optional<ipr::Type>{ *T[k - 1] } : Optional<ipr::Type>{ }; }
   };

   template<class X, class Y> inline bool same(const X& x, const Y& y) { return static_cast<const void*>(&x) == static_cast<const void*>(&y); }

#define ZOO_UNARY_OPT(X) X(Address, make_address) X(Complement, make_complement) X(Deref, make_deref) X(Alignof, make_alignof) X(Sizeof, make_sizeof) \
   X(Args_cardinality, make_args_cardinality) X(Typeid, make_typeid) X(Not, make_not) X(Post_increment, make_post_increment) X(Post_decrement, make_post_decrement) \
   X(Pre_increment, make_pre_increment) X(Pre_decrement, make_pre_decrement) X(Throw, make_throw) X(Unary_minus, make_unary_minus) X(Unary_plus, make_unary_plus) \
   X(Expansion, make_expansion) X(Noexcept, make_noexcept)
#define ZOO_UNARY_REQ(X) X(Demotion, make_demotion) X(Materialization, make_materialization) X(Promotion, make_promotion) X(Read, make_read)
#define ZOO_BINARY_OPT(X) X(And, make_and) X(Array_ref, make_array_ref) X(Arrow, make_arrow) X(Arrow_star, make_arrow_star) X(Assign, make_assign) X(Bitand, make_bitand) \
   X(Bitand_assign, make_bitand_assign) X(Bitor, make_bitor) X(Bitor_assign, make_bitor_assign) X(Bitxor, make_bitxor) X(Bitxor_assign, make_bitxor_assign) X(Comma, make_comma) \
   X(Div, make_div) X(Div_assign, make_div_assign) X(Dot, make_dot) X(Dot_star, make_dot_star) X(Equal, make_equal) X(Greater, make_greater) X(Greater_equal, make_greater_equal) \
   X(Less, make_less) X(Less_equal, make_less_equal) X(Lshift, make_lshift) X(Lshift_assign, make_lshift_assign) X(Member_init, make_member_init) X(Minus, make_minus) \
   X(Minus_assign, make_minus_assign) X(Modulo, make_modulo) X(Modulo_assign, make_modulo_assign) X(Mul, make_mul) X(Mul_assign, make_mul_assign) X(Not_equal, make_not_equal) \
   X(Or, make_or) X(Plus, make_plus) X(Plus_assign, make_plus_assign) X(Rshift, make_rshift) X(Rshift_assign, make_rshift_assign) X(Scope_ref, make_scope_ref)
#define ZOO_CASTS(X) X(Cast, make_cast) X(Const_cast, make_const_cast) X(Dynamic_cast, make_dynamic_cast) X(Reinterpret_cast, make_reinterpret_cast) X(Static_cast, make_static_cast)
#define ZOO_CONVERSIONS(X) X(Coercion, make_coercion) X(Narrow, make_narrow) X(Pretend, make_pretend) X(Widen, make_widen)
#define ZOO_COUNT(I, f) +1

   enum : unsigned {
      B_UNARY_OPT = 0,
      B_UNARY_REQ = B_UNARY_OPT ZOO_UNARY_OPT(ZOO_COUNT),
      B_BINARY_OPT = B_UNARY_REQ ZOO_UNARY_REQ(ZOO_COUNT),
      B_CASTS = B_BINARY_OPT ZOO_BINARY_OPT(ZOO_COUNT),
      B_CONVERSIONS = B_CASTS ZOO_CASTS(ZOO_COUNT),
      B_MISC = B_CONVERSIONS ZOO_CONVERSIONS(ZOO_COUNT),
   };

   // classic expressions may carry a user-supplied implementation (set after construction): symbolically set or left unset
   template<class P> const ipr::Expr* maybe_implementation(World& w, P* p) {
      if constexpr (requires { p->op_impl; }) { if (w.flag()) { p->op_impl = *w.E[2]; return w.E[2]; } }
      return nullptr;
   }
   template<class I> bool implementation_is(const I& n, const ipr::Expr* impl) {
      if constexpr (requires { n.implementation(); }) return impl ? (n.implementation().is_valid() && same(n.implementation().get(), *impl)) : !n.implementation().is_valid();
      else return true;
   }
   // ---- pattern helpers
   template<class I, class V, class F> void unary_opt(World& w, V& v, F make) {
      v.generative();
      const ipr::Expr& a = w.e(); const ipr::Type* et; auto ty = w.ot(et);
      auto* made = make(a, ty); const ipr::Expr* impl = maybe_implementation(w, made); const I& n = *made;
      v.template node<I>(n); v.operands(same(n.operand(), a) && implementation_is(n, impl)); v.typed(n, et);
   }
   template<class I, class V, class F> void unary_req(World& w, V& v, F make) {
      v.generative();
      const ipr::Expr& a = w.e(); const ipr::Type& ty = w.t();
      auto* made = make(a, ty); const ipr::Expr* impl = maybe_implementation(w, made); const I& n = *made;
      v.template node<I>(n); v.operands(same(n.operand(), a) && implementation_is(n, impl)); v.typed(n, &ty);
   }
   template<class I, class V, class F> void binary_opt(World& w, V& v, F make) {
      v.generative();
      const ipr::Expr& a = w.e(); const ipr::Expr& b = w.e(); const ipr::Type* et; auto ty = w.ot(et);
      auto* made = make(a, b, ty); const ipr::Expr* impl = maybe_implementation(w, made); const I& n = *made;
      v.template node<I>(n); v.operands(same(n.first(), a) && same(n.second(), b) && implementation_is(n, impl)); v.typed(n, et);
   }
   template<class I, class V, class F> void cast(World& w, V& v, F make) {
      v.generative();
      const ipr::Type& ty = w.t(); const ipr::Expr& a = w.e();
      auto* made = make(ty, a); const ipr::Expr* impl = maybe_implementation(w, made); const I& n = *made;
      v.template node<I>(n); v.operands(same(n.first(), ty) && same(n.second(), a) && same(n.expr(), a) && implementation_is(n, impl)); v.typed(n, &ty);      // a cast has its target type
   }
   template<class I, class V, class F> void conversion(World& w, V& v, F make) {
      v.generative();
      const ipr::Expr& a = w.e(); const ipr::Type& to = w.t(); const ipr::Type& res = w.t();
      auto* made = make(a, to, res); const ipr::Expr* impl = maybe_implementation(w, made); const I& n = *made;
      v.template node<I>(n); v.operands(same(n.first(), a) && same(n.second(), to) && implementation_is(n, impl)); v.typed(n, &res);
   }

   template<class V> void build(World& w, unsigned which, V& v, unsigned* total = nullptr) {
      auto& lx = w.lx; unsigned k = B_UNARY_OPT;
#define ZOO_CASE_UO(I, f) if (which == k++) return unary_opt<ipr::I>(w, v, [&](const ipr::Expr& a, Optional<ipr::Type> t) { return lx.f(a, t); });
      ZOO_UNARY_OPT(ZOO_CASE_UO)
#define ZOO_CASE_UR(I, f) if (which == k++) return unary_req<ipr::I>(w, v, [&](const ipr::Expr& a, const ipr::Type& t) { return lx.f(a, t); });
      ZOO_UNARY_REQ(ZOO_CASE_UR)
#define ZOO_CASE_BO(I, f) if (which == k++) return binary_opt<ipr::I>(w, v, [&](const ipr::Expr& a, const ipr::Expr& b, Optional<ipr::Type> t) { return lx.f(a, b, t); });
      ZOO_BINARY_OPT(ZOO_CASE_BO)
#define ZOO_CASE_CA(I, f) if (which == k++) return cast<ipr::I>(w, v, [&](const ipr::Type& t, const ipr::Expr& a) { return lx.f(t, a); });
      ZOO_CASTS(ZOO_CASE_CA)
#define ZOO_CASE_CO(I, f) if (which == k++) return conversion<ipr::I>(w, v, [&](const ipr::Expr& a, const ipr::Type& t, const ipr::Type& r) { return lx.f(a, t, r); });
      ZOO_CONVERSIONS(ZOO_CASE_CO)
      // ---------------- individually described factories
#define ZCASE if (which == k++)
      ZCASE { v.generative(); const ipr::Expr& a = w.e(); const ipr::Array_delete& n = *lx.make_array_delete(a); v.template node<ipr::Array_delete>(n); v.operands(same(n.operand(), a) && same(n.storage(), a)); v.typed(n, nullptr); return; }
      ZCASE { v.generative(); const ipr::Expr& a = w.e(); const ipr::Delete& n = *lx.make_delete(a); v.template node<ipr::Delete>(n); v.operands(same(n.operand(), a) && same(n.storage(), a)); v.typed(n, nullptr); return; }
      ZCASE { v.generative(); const ipr::Expr& a = w.e(); const ipr::Restriction& n = *lx.make_restriction(a); v.template node<ipr::Restriction>(n); v.operands(same(n.operand(), a)); v.typed(n, &lx.bool_type()); return; }
      ZCASE { uint64_t d = (w.concrete || w.printable) ? w.pick(5) : (w.nd() & 0xffffffffu); const ipr::Expr& a = w.e(); const ipr::Type* et; auto ty = w.ot(et);   /* concrete mode: a valid enumerator, the node may be printed */
              const ipr::Enclosure& n = *lx.make_enclosure(ipr::Delimiter(d), a, ty); v.template node<ipr::Enclosure>(n);
              v.operands(same(n.expr(), a) && same(n.operand(), a) && (uint64_t)(unsigned)n.delimiters() == d); v.typed(n, et); return; }
      ZCASE { v.generative(); const ipr::Type& ty = w.t(); const ipr::Enclosure& enc = *lx.make_enclosure(ipr::Delimiter::Paren, w.e()); const ipr::Enclosure& enc2 = *lx.make_enclosure(ipr::Delimiter::Brace, w.e());
              const ipr::Enclosure& pick = w.flag() ? enc : enc2;
              const ipr::Construction& n = *lx.make_construction(ty, pick); v.template node<ipr::Construction>(n); v.operands(same(n.arguments(), pick) && same(n.operand(), pick)); v.typed(n, &ty); return; }
      ZCASE { v.generative(); const ipr::Name& nm = w.n(); const ipr::Type* et; auto ty = w.ot(et); const ipr::Id_expr& n = *lx.make_id_expr(nm, ty);
              v.template node<ipr::Id_expr>(n); v.operands(same(n.name(), nm) && same(n.operand(), nm) && !n.resolution().is_valid()); v.typed(n, et); return; }
      ZCASE { v.generative(); const ipr::Name& dn = w.n(); const ipr::Type& dt = w.t(); impl::Var* d = w.reg->declare_var(dn, dt);
              if (w.flag()) d = w.reg->declare_var(dn, dt);                                   /* the id-expression may be made from a redeclaration: it resolves to that very declaration */
              if (w.flag()) { impl::Id_expr* use = lx.make_id_expr(dn, *w.T[(w.pick(3))]); use->decls = d; }      /* an earlier, name-built use of the same declaration, typed on its own and resolved by the client */
              const ipr::Id_expr& n = *lx.make_id_expr(*d);
              v.template node<ipr::Id_expr>(n); v.operands(same(n.name(), d->name()) && n.resolution().is_valid() && same(n.resolution().get(), *d)); v.typed(n, &static_cast<const ipr::Var&>(*d).type()); return; }
      ZCASE { v.generative(); const ipr::Identifier& i = w.id(); const ipr::Type* et; auto ty = w.ot(et); const ipr::Label& n = *lx.make_label(i, ty);
              v.template node<ipr::Label>(n); v.operands(same(n.name(), i) && same(n.operand(), i)); v.typed(n, et); return; }
      ZCASE { v.generative(); impl::Expr_list* x = lx.make_expr_list(); unsigned cnt = w.pick(3); const ipr::Expr* el[2];
              for (unsigned i = 0; i < cnt; ++i) { el[i] = &w.e(); x->push_back(el[i]); }
              const ipr::Expr_list& n = *x; v.template node<ipr::Expr_list>(n);
              bool ok = n.size() == cnt && same(n.elements(), n.operand()); for (unsigned i = 0; i < cnt; ++i) ok = ok && &*n.elements().position(i) == el[i];
              v.operands(ok); return; }
      ZCASE { v.generative(); const ipr::Phantom& n = *lx.make_phantom(); v.template node<ipr::Phantom>(n); v.operands(true); v.typed(n, nullptr); return; }
      ZCASE { v.generative(); const ipr::Type& ty = w.t(); const ipr::Phantom& n = *lx.make_phantom(ty); v.template node<ipr::Phantom>(n); v.operands(true); v.typed(n, &ty); return; }
      ZCASE { v.generative(); const ipr::Type& ty = w.t(); const ipr::Eclipsis& n = *lx.make_eclipsis(ty); v.template node<ipr::Eclipsis>(n); v.operands(true); v.typed(n, &ty); return; }
      ZCASE { const ipr::String& s = w.s(); const ipr::Literal& l = lx.get_literal(w.t(), w.s()); const ipr::Annotation& n = *w.own(new impl::Annotation(s, l));   /* expr_factory::make_annotation is declared but not defined by the library */
              v.template node<ipr::Annotation>(n); v.operands(same(n.name(), s) && same(n.value(), l) && same(n.first(), s) && same(n.second(), l)); return; }
      ZCASE { const ipr::Type& ty = w.t(); const ipr::String& s = w.s(); unsigned form = w.pick(4);      /* all four request forms: make_ / get_, interned String / raw spelling */
              const ipr::Literal& n = form == 0 ? *lx.make_literal(ty, s) : form == 1 ? *lx.make_literal(ty, s.characters()) : form == 2 ? lx.get_literal(ty, s) : lx.get_literal(ty, s.characters());
              v.template node<ipr::Literal>(n); v.operands(same(n.first(), ty) && same(n.second(), s) && same(n.string(), s)); v.typed(n, &ty); return; }
      ZCASE { v.generative(); const ipr::Expr& f = w.e(); impl::Expr_list* x = lx.make_expr_list(); x->push_back(&w.e()); const ipr::Type* et; auto ty = w.ot(et);
              const ipr::Call& n = *lx.make_call(f, *x, ty); v.template node<ipr::Call>(n); v.operands(same(n.function(), f) && same(n.args(), *x) && same(n.first(), f) && same(n.second(), *x)); v.typed(n, et); return; }
      ZCASE { v.generative(); const ipr::Expr& f = w.e(); impl::Expr_list* x = lx.make_expr_list(); x->push_back(&w.e());
              const ipr::Template_id& n = w.flag() ? *lx.make_template_id(f, *x) : lx.get_template_id(f, *x);
              v.template node<ipr::Template_id>(n); v.operands(same(n.template_name(), f) && same(n.args(), *x) && same(n.first(), f) && same(n.second(), *x)); return; }
      ZCASE { v.generative(); const ipr::Expr& a = lx.make_id_expr(w.n(), w.t())[0]; const ipr::Expr& b = *lx.make_id_expr(w.n(), *w.T[2]); const ipr::Rewrite& n = *lx.make_rewrite(a, b);
              v.template node<ipr::Rewrite>(n); v.operands(same(n.source(), a) && same(n.target(), b) && same(n.first(), a) && same(n.second(), b)); v.typed(n, w.T[2]); return; }          // borrows the target's type
      ZCASE { uint64_t op = w.nd() & 0xffffffffu; const ipr::Expr& a = w.e(); const ipr::Expr& b = w.e(); const ipr::Type* et; auto ty = w.ot(et);
              const ipr::Binary_fold& n = *lx.make_binary_fold(ipr::Category_code(op), a, b, ty); v.template node<ipr::Binary_fold>(n);
              v.operands(same(n.first(), a) && same(n.second(), b) && (uint64_t)(unsigned)n.operation() == op); v.typed(n, et); return; }
      ZCASE { v.generative(); impl::Where* x = lx.make_where(*w.reg); const ipr::Where& n = *x; v.template node<ipr::Where>(n);
              bool unset_ok = vp_outcome([&] { n.main(); }) == 1;
              const ipr::Expr& r = *lx.make_id_expr(w.n(), w.t()); const ipr::Type& rt = r.type(); x->result = &r;
              v.operands(unset_ok && same(n.main(), r) && same(n.first(), r) && same(n.attendant(), x->region.bindings()) && same(x->region.enclosing(), *w.reg)); v.typed(n, &rt); return; }                   // borrows main()'s type
      ZCASE { v.generative(); const ipr::Expr& a = *lx.make_id_expr(w.n(), w.t()); const ipr::Expr& b = w.e(); const ipr::Where& n = *lx.make_where(a, b);
              v.template node<ipr::Where>(n); v.operands(same(n.main(), a) && same(n.attendant(), b)); v.typed(n, &a.type()); return; }
      ZCASE { v.generative(); const ipr::Expr& a = w.e(); impl::General_substitution* g = lx.make_general_substitution(); impl::Instantiation* x = lx.make_instantiation(a, *g); const ipr::Instantiation& n = *x;
              v.template node<ipr::Instantiation>(n); bool ok = same(n.pattern(), a) && same(n.substitution(), *g) && !n.instance().is_valid();
              bool throws = vp_outcome([&] { n.type(); }) == 1;
              const ipr::Expr& inst = *lx.make_id_expr(w.n(), w.t()); x->result = &inst;
              v.operands(ok && throws && same(n.instance().get(), inst)); v.typed(n, &inst.type()); return; }
      ZCASE { v.generative(); const ipr::Construction& c = *lx.make_construction(w.t(), *lx.make_enclosure(ipr::Delimiter::Paren, w.e())); bool placed = w.flag(); impl::Expr_list* x = lx.make_expr_list();
              const ipr::Type* et; auto ty = w.ot(et);
              impl::New* nn = lx.make_new(placed ? Optional<ipr::Expr_list>{ *x } : Optional<ipr::Expr_list>{ }, c, ty); const ipr::New& n = *nn; v.template node<ipr::New>(n);
              bool ok = same(n.initializer(), c) && same(n.second(), c) && n.placement().is_valid() == placed && (!placed || same(n.placement().get(), *x)) && !n.global_requested();
              nn->global = true; v.operands(ok && n.global_requested()); v.typed(n, et); return; }
      ZCASE { const ipr::Expr& a = w.e(); const ipr::Expr& b = w.e(); const ipr::Expr& c = w.e(); const ipr::Type* et; auto ty = w.ot(et);
              const ipr::Conditional& n = *lx.make_conditional(a, b, c, ty); v.template node<ipr::Conditional>(n);
              v.operands(same(n.condition(), a) && same(n.then_expr(), b) && same(n.else_expr(), c) && same(n.first(), a) && same(n.second(), b) && same(n.third(), c)); v.typed(n, et); return; }
      ZCASE { v.generative(); uint64_t lvl = w.nd(); impl::Mapping* m = lx.make_mapping(*w.reg, Mapping_level{ lvl }); const ipr::Mapping& n = *m; v.template node<ipr::Mapping>(n);
              bool ok = util::rep(n.parameters().level()) == lvl && same(n.parameters().region().enclosing(), *w.reg) && n.parameters().size() == 0 && vp_outcome([&] { n.result(); }) == 1;
              const ipr::Expr& body = w.e(); m->body = &body; v.operands(ok && same(n.result(), body)); v.typed(n, nullptr);
              v.template node<ipr::Parameter_list>(n.parameters()); return; }
      ZCASE { v.generative(); uint64_t lvl = w.nd(); impl::Lambda* m = lx.make_lambda(*w.reg, Mapping_level{ lvl }); const ipr::Lambda& n = *m; v.template node<ipr::Lambda>(n);
              bool ok = util::rep(n.parameters().level()) == lvl && same(n.parameters().region().enclosing(), *w.reg) && !n.target().is_valid() && !n.requirement().is_valid() && !n.eh_specification().is_valid()
                        && n.attributes().size() == 0 && n.captures().size() == 0 && n.specifiers() == ipr::Lambda_specifiers::None && vp_outcome([&] { n.type(); }) == 1;
              impl::Closure* c = lx.make_closure(*w.reg); m->typing = c; const ipr::Type& vt = w.t(); m->value_type = &vt;
              v.operands(ok && same(n.type(), *c) && same(n.target().get(), vt)); return; }
      ZCASE { v.generative(); uint64_t lvl = w.nd(); const ipr::Requires& n = *lx.make_requires(*w.reg, Mapping_level{ lvl }); v.template node<ipr::Requires>(n);
              v.operands(util::rep(n.parameters().level()) == lvl && n.body().size() == 0 && same(n.parameters().region().enclosing(), *w.reg)); v.typed(n, &lx.bool_type()); return; }
      ZCASE { const ipr::Name& nm = w.n(); const ipr::Type& ty = w.t(); const ipr::Symbol& n = lx.get_symbol(nm, ty); v.template node<ipr::Symbol>(n); v.operands(same(n.name(), nm) && same(n.operand(), nm)); v.typed(n, &ty); return; }
      ZCASE { static const char8_t* const reserved[] = { u8"true", u8"false", u8"nullptr", u8"default", u8"delete", u8"this", u8"int" };      /* a symbol is identified by (name, type) also when the name is a reserved word */
              const ipr::Name& nm = lx.get_identifier(reserved[w.pick(7)]); const ipr::Type& ty = w.t(); const ipr::Symbol& n = lx.get_symbol(nm, ty); v.template node<ipr::Symbol>(n);
              v.operands(same(n.name(), nm) && same(n.operand(), nm)); v.typed(n, &ty); return; }
      ZCASE { const ipr::Identifier& i = w.id(); const ipr::Symbol& n = lx.get_label(i); v.template node<ipr::Symbol>(n); v.operands(same(n.name(), i)); v.typed(n, &lx.void_type()); return; }
      ZCASE { const ipr::Type& ty = w.t(); const ipr::Symbol& n = lx.get_this(ty); v.template node<ipr::Symbol>(n);
              auto nm = util::view<ipr::Identifier>(n.name()); v.operands(nm && nm->string().characters() == util::word_view(u8"this")); v.typed(n, &ty); return; }
      ZCASE { v.generative(); const ipr::String& s = w.s(); const ipr::Phased_evaluation& n = *lx.make_asm(s); v.template node<ipr::Phased_evaluation>(n);
              auto a = util::view<ipr::Asm>(n.expression()); v.operands(a && same(a->text(), s) && same(a->operand(), s) && n.phases() == ipr::Phases::Code_generation);
              v.typed(n, &lx.void_type()); if (a) { v.template node<ipr::Asm>(*a); v.typed(*a, &lx.void_type()); } return; }
      ZCASE { const ipr::Expr& c = w.e(); bool with = w.flag(); const ipr::String& s = w.s();
              const ipr::Phased_evaluation& n = *lx.make_static_assert(c, with ? Optional<ipr::String>{ s } : Optional<ipr::String>{ }); v.template node<ipr::Phased_evaluation>(n);
              auto a = util::view<ipr::Static_assert>(n.expression());
              v.operands(a && same(a->condition(), c) && a->message().is_valid() == with && (!with || same(a->message().get(), s)) && n.phases() == ipr::Phases::Elaboration);
              v.typed(n, &lx.bool_type()); if (a) { v.template node<ipr::Static_assert>(*a); v.typed(*a, &lx.bool_type()); } return; }
      ZCASE { v.generative(); const ipr::Expr& a = w.e(); uint64_t ph = w.nd() & 0xffffffffu; const ipr::Expr& typed = *lx.make_id_expr(w.n(), w.t()); bool use_typed = w.flag(); const ipr::Expr& x = use_typed ? typed : a;
              const ipr::Phased_evaluation& n = *lx.make_phased_evaluation(x, ipr::Phases(ph)); v.template node<ipr::Phased_evaluation>(n);
              v.operands(same(n.expression(), x) && (uint64_t)(unsigned)n.phases() == ph); v.typed(n, &x.type()); return; }
      // ---- statements
      ZCASE { v.generative(); impl::Break* b = lx.make_break(); const ipr::Break& n = *b; v.template node<ipr::Break>(n); bool ok = vp_outcome([&] { n.from(); }) == 1;
              impl::While* wl = lx.make_while(); b->stmt = wl; v.operands(ok && same(n.from(), *wl)); v.typed(n, &lx.void_type()); return; }
      ZCASE { v.generative(); impl::Continue* b = lx.make_continue(); const ipr::Continue& n = *b; v.template node<ipr::Continue>(n); bool ok = vp_outcome([&] { n.iteration(); }) == 1;
              impl::Do* wl = lx.make_do(); b->stmt = wl; v.operands(ok && same(n.iteration(), *wl)); v.typed(n, &lx.void_type()); return; }
      ZCASE { v.generative(); const ipr::Type* et; auto ty = w.ot(et); impl::Block* b = lx.make_block(*w.reg, ty); const ipr::Block& n = *b; v.template node<ipr::Block>(n);
              const ipr::Expr& st = *lx.make_expr_stmt(w.e()); b->add_stmt(st);
              v.operands(same(n.region().enclosing(), *w.reg) && n.body().size() == 1 && &*n.body().position(0) == &st && n.handlers().size() == 0); v.typed(n, et); return; }
      ZCASE { v.generative(); impl::Expr_list* x = lx.make_expr_list(); impl::Block* b = lx.make_block(*w.reg); impl::Block* b2 = lx.make_block(*w.reg); const ipr::Block& pick = w.flag() ? *b : *b2;
              const ipr::Ctor_body& n = *lx.make_ctor_body(*x, pick); v.template node<ipr::Ctor_body>(n); v.operands(same(n.inits(), *x) && same(n.block(), pick) && same(n.first(), *x) && same(n.second(), pick)); v.typed(n, nullptr); return; }
      ZCASE { v.generative(); const ipr::Expr& a = *lx.make_id_expr(w.n(), w.t()); const ipr::Expr_stmt& n = *lx.make_expr_stmt(a); v.template node<ipr::Expr_stmt>(n); v.operands(same(n.expr(), a) && same(n.operand(), a)); v.typed(n, &a.type()); return; }
      ZCASE { const ipr::Expr& a = lx.get_label(w.id()); const ipr::Goto& n = *lx.make_goto(a); v.template node<ipr::Goto>(n); v.operands(same(n.target(), a) && same(n.operand(), a)); v.typed(n, &a.type()); return; }
      ZCASE { v.generative(); const ipr::Expr& a = w.e(); const ipr::Return& n = *lx.make_return(a); v.template node<ipr::Return>(n); v.operands(same(n.value(), a) && same(n.operand(), a)); v.typed(n, nullptr); return; }
      ZCASE { v.generative(); impl::Do* d = lx.make_do(); const ipr::Do& n = *d; v.template node<ipr::Do>(n); bool ok = vp_outcome([&] { n.condition(); }) == 1 && vp_outcome([&] { n.body(); }) == 1 && vp_outcome([&] { n.type(); }) == 1;
              const ipr::Expr& c = w.e(); const ipr::Expr& b = *lx.make_expr_stmt(*lx.make_id_expr(w.n(), w.t())); d->control = &c; d->stmt = &b; v.operands(ok && same(n.condition(), c) && same(n.body(), b) && same(n.first(), c) && same(n.second(), b)); v.typed(n, &b.type()); return; }
      ZCASE { v.generative(); impl::While* d = lx.make_while(); const ipr::While& n = *d; v.template node<ipr::While>(n); bool ok = vp_outcome([&] { n.condition(); }) == 1 && vp_outcome([&] { n.body(); }) == 1;
              const ipr::Expr& c = w.e(); const ipr::Expr& b = *lx.make_expr_stmt(*lx.make_id_expr(w.n(), w.t())); d->control = &c; d->stmt = &b; v.operands(ok && same(n.condition(), c) && same(n.body(), b)); v.typed(n, &b.type()); return; }
      ZCASE { v.generative(); impl::Switch* d = lx.make_switch(); const ipr::Switch& n = *d; v.template node<ipr::Switch>(n); bool ok = vp_outcome([&] { n.condition(); }) == 1 && vp_outcome([&] { n.body(); }) == 1;
              const ipr::Expr& c = w.e(); const ipr::Expr& b = *lx.make_expr_stmt(*lx.make_id_expr(w.n(), w.t())); d->control = &c; d->stmt = &b; v.operands(ok && same(n.condition(), c) && same(n.body(), b)); v.typed(n, &b.type()); return; }
      ZCASE { v.generative(); const ipr::Expr& c = w.e(); const ipr::Expr& s = w.e(); const ipr::If& n = *lx.make_if(c, s); v.template node<ipr::If>(n);
              v.operands(same(n.condition(), c) && same(n.consequence(), s) && !n.alternative().is_valid() && same(n.first(), c) && same(n.second(), s)); v.typed(n, nullptr); return; }
      ZCASE { v.generative(); const ipr::Expr& c = w.e(); const ipr::Expr& s = w.e(); const ipr::Expr& f = w.e(); const ipr::If& n = *lx.make_if(c, s, f); v.template node<ipr::If>(n);
              v.operands(same(n.condition(), c) && same(n.consequence(), s) && n.alternative().is_valid() && same(n.alternative().get(), f)); v.typed(n, nullptr); return; }
      ZCASE { v.generative(); const ipr::Expr& l = w.e(); const ipr::Expr& s = *lx.make_expr_stmt(*lx.make_id_expr(w.n(), w.t())); const ipr::Labeled_stmt& n = *lx.make_labeled_stmt(l, s); v.template node<ipr::Labeled_stmt>(n);
              v.operands(same(n.label(), l) && same(n.stmt(), s) && same(n.first(), l) && same(n.second(), s)); v.typed(n, &s.type()); return; }
      ZCASE { v.generative(); impl::For* d = lx.make_for(); const ipr::For& n = *d; v.template node<ipr::For>(n);
              bool ok = vp_outcome([&] { n.initializer(); }) == 1 && vp_outcome([&] { n.condition(); }) == 1 && vp_outcome([&] { n.increment(); }) == 1 && vp_outcome([&] { n.body(); }) == 1 && vp_outcome([&] { n.type(); }) == 1;
              const ipr::Expr& i = w.e(); const ipr::Expr& c = w.e(); const ipr::Expr& inc = w.e(); const ipr::Stmt& b = *lx.make_expr_stmt(*lx.make_id_expr(w.n(), w.t()));
              d->init = &i; d->cond = &c; d->inc = &inc; d->stmt = &b; v.operands(ok && same(n.initializer(), i) && same(n.condition(), c) && same(n.increment(), inc) && same(n.body(), b)); v.typed(n, &b.type()); return; }
      ZCASE { v.generative(); impl::For_in* d = lx.make_for_in(); const ipr::For_in& n = *d; v.template node<ipr::For_in>(n);
              bool ok = vp_outcome([&] { n.variable(); }) == 1 && vp_outcome([&] { n.sequence(); }) == 1 && vp_outcome([&] { n.body(); }) == 1;
              impl::Var* var = w.reg->declare_var(w.n(), w.t()); const ipr::Expr& sq = w.e(); const ipr::Stmt& b = *lx.make_expr_stmt(*lx.make_id_expr(w.n(), w.t()));
              d->var = var; d->seq = &sq; d->stmt = &b; v.operands(ok && same(n.variable(), *var) && same(n.sequence(), sq) && same(n.body(), b)); v.typed(n, &b.type()); return; }
      ZCASE { v.generative(); impl::Block* b = lx.make_block(*w.reg); const ipr::Name& nm = w.n(); const ipr::Type& ty = w.t(); impl::Handler* h = b->new_handler(nm, ty); const ipr::Handler& n = *h; v.template node<ipr::Handler>(n);
              v.operands(same(n.exception().name(), nm) && same(n.exception().type(), ty) && n.body().handlers().size() == 0 && !n.exception().initializer().is_valid());
              const ipr::Type* bt = nullptr; if (w.flag()) { bt = &w.t(); h->body().typing = bt; } v.typed(n, bt);           // a handler borrows the type of its body
              v.template node<ipr::EH_parameter>(n.exception()); v.template node<ipr::Block>(n.body()); return; }
      // ---- directives
      ZCASE { v.generative(); impl::Specifiers_spread* d = lx.make_specifiers_spread(); const ipr::Specifiers_spread& n = *d; v.template node<ipr::Specifiers_spread>(n); uint64_t sp = w.nd();
              bool ok = n.targets().size() == 0 && util::rep(n.specifiers()) == 0 && n.phases() == ipr::Phases::Elaboration; d->specs = ipr::Specifiers(sp); v.operands(ok && util::rep(n.specifiers()) == sp); v.typed(n, nullptr); return; }
      ZCASE { v.generative(); impl::Structured_binding* d = lx.make_structured_binding(); const ipr::Structured_binding& n = *d; v.template node<ipr::Structured_binding>(n);
              bool ok = n.names().size() == 0 && n.bindings().size() == 0 && vp_outcome([&] { n.initializer(); }) == 1 && n.mode() == ipr::Binding_mode::Copy && n.phases() == ipr::Phases::Elaboration;
              const ipr::Expr& i = w.e(); d->init = &i; uint64_t bm = w.nd() & 0xff; d->binding_mode = ipr::Binding_mode(bm); d->ids.push_back(&w.id());
              v.operands(ok && same(n.initializer(), i) && (uint64_t)n.mode() == bm && n.names().size() == 1); v.typed(n, nullptr); return; }
      ZCASE { v.generative(); const ipr::Scope_ref& sr = *lx.make_scope_ref(w.e(), w.e()); uint64_t md = w.nd() & 0xffffffffu;
              const ipr::Using_declaration& n = *lx.make_using_declaration(sr, ipr::Using_declaration::Designator::Mode(md)); v.template node<ipr::Using_declaration>(n);
              v.operands(n.designators().size() == 1 && same(n.designators().position(0)->path(), sr) && (uint64_t)(unsigned)n.designators().position(0)->mode() == md && n.phases() == ipr::Phases::Elaboration); v.typed(n, nullptr); return; }
      ZCASE { v.generative(); impl::Using_declaration* d = lx.make_using_declaration(); const ipr::Using_declaration& n = *d; v.template node<ipr::Using_declaration>(n); bool ok = n.designators().size() == 0;
              const ipr::Scope_ref& sr = *lx.make_scope_ref(w.e(), w.e()); d->seq.push_back(sr, ipr::Using_declaration::Designator::Mode::Type);
              v.operands(ok && n.designators().size() == 1 && same(n.designators().position(0)->path(), sr)); v.typed(n, nullptr); return; }
      ZCASE { v.generative(); impl::Namespace* ns = lx.make_namespace(*w.reg); impl::Namespace* ns2 = lx.make_namespace(*w.reg); const ipr::Scope& sc = w.flag() ? ns->body.scope : ns2->body.scope; const ipr::Type& ty = w.t();
              const ipr::Using_directive& n = *lx.make_using_directive(sc, ty); v.template node<ipr::Using_directive>(n); v.operands(same(n.nominated_scope(), sc) && n.phases() == ipr::Phases::Elaboration); v.typed(n, &ty); return; }
      ZCASE { v.generative(); impl::Pragma* d = lx.make_pragma(); const ipr::Pragma& n = *d; v.template node<ipr::Pragma>(n); v.operands(n.incantation().size() == 0 && same(n.incantation(), n.operand()) && n.phases() == ipr::Phases::All); v.typed(n, nullptr); return; }
      // ---- types
      ZCASE { const ipr::Type& e = w.t(); const ipr::Expr& b = w.e(); const ipr::Array& n = lx.get_array(e, b); v.template node<ipr::Array>(n); v.operands(same(n.element_type(), e) && same(n.bound(), b) && same(n.first(), e) && same(n.second(), b)); v.typed(n, &lx.typename_type()); return; }
      ZCASE { uint64_t q = w.nd(); vp_assume(q != 0); const ipr::Type& m = w.t(); const ipr::Qualified& n = lx.get_qualified(ipr::Qualifiers(q), m); v.template node<ipr::Qualified>(n);
              auto mq = util::view<ipr::Qualified>(m); uint64_t eq = mq ? (q | util::rep(mq->qualifiers())) : q; const ipr::Type& em = mq ? mq->main_variant() : m;      /* documented normal form: qualifiers merge over the innermost unqualified type */
              v.operands(util::rep(n.qualifiers()) == eq && same(n.main_variant(), em) && util::rep(n.first()) == eq && same(n.second(), em)); v.typed(n, &lx.typename_type()); return; }
      ZCASE { v.generative(); const ipr::Expr& e = w.e(); const ipr::Decltype& n = lx.get_decltype(e); v.template node<ipr::Decltype>(n); v.operands(same(n.expr(), e) && same(n.operand(), e)); v.typed(n, &lx.typename_type()); return; }
      ZCASE { impl::Warehouse<ipr::Type> w1, w2; w1.push_back(w.t()); w2.push_back(w.t()); const ipr::Product& p = lx.get_product(w1); const ipr::Sum& s = lx.get_sum(w2); const ipr::Tor& n = lx.get_tor(p, s);
              v.template node<ipr::Tor>(n); v.operands(same(n.source(), p) && same(n.throws(), s) && same(n.first(), p) && same(n.second(), s)); v.typed(n, &lx.typename_type());
              v.template node<ipr::Product>(p); v.template node<ipr::Sum>(s); v.typed(p, &lx.typename_type()); v.typed(s, &lx.typename_type()); return; }
      ZCASE { impl::Warehouse<ipr::Type> w1; w1.push_back(w.t()); const ipr::Product& p = lx.get_product(w1); const ipr::Type& t = w.t(); const ipr::Expr& th = w.e(); unsigned how = w.pick(4);
              const ipr::Transfer& foreign = lx.get_transfer(lx.c_linkage(), lx.get_calling_convention(u8"cc")); const ipr::Transfer& natural = lx.get_transfer(lx.cxx_linkage(), lx.get_calling_convention(u8""));
              // how: 0 transfer omitted, 1 natural transfer spelled out (must collapse, keeping every operand), 2 foreign transfer, 3 linkage-only transfer
              const ipr::Transfer& xf = how == 3 ? lx.get_transfer_from_linkage(lx.c_linkage()) : how == 2 ? foreign : natural;
              const ipr::Function& n = how == 0 ? lx.get_function(p, t, th) : lx.get_function(p, t, th, xf); v.template node<ipr::Function>(n);
              v.operands(same(n.source(), p) && same(n.target(), t) && same(n.throws(), th) && same(n.first(), p) && same(n.second(), t) && same(n.third(), th) && (how >= 2 ? n.transfer() == xf : n.transfer() == lx.int_type().transfer()));
              v.typed(n, &lx.typename_type()); return; }
      ZCASE { const ipr::Type& t = w.t(); const ipr::Pointer& n = lx.get_pointer(t); v.template node<ipr::Pointer>(n); v.operands(same(n.points_to(), t) && same(n.operand(), t)); v.typed(n, &lx.typename_type()); return; }
      ZCASE { const ipr::Type& t = w.t(); const ipr::Reference& n = lx.get_reference(t); v.template node<ipr::Reference>(n); v.operands(same(n.refers_to(), t) && same(n.operand(), t)); v.typed(n, &lx.typename_type()); return; }
      ZCASE { const ipr::Type& t = w.t(); const ipr::Rvalue_reference& n = lx.get_rvalue_reference(t); v.template node<ipr::Rvalue_reference>(n); v.operands(same(n.refers_to(), t) && same(n.operand(), t)); v.typed(n, &lx.typename_type()); return; }
      ZCASE { const ipr::Type& c = w.t(); const ipr::Type& m = w.t(); const ipr::Ptr_to_member& n = lx.get_ptr_to_member(c, m); v.template node<ipr::Ptr_to_member>(n); v.operands(same(n.containing_type(), c) && same(n.member_type(), m) && same(n.first(), c) && same(n.second(), m)); v.typed(n, &lx.typename_type()); return; }
      ZCASE { impl::Warehouse<ipr::Type> w1; w1.push_back(w.t()); const ipr::Product& p = lx.get_product(w1); const ipr::Type& t = w.t(); const ipr::Forall& n = lx.get_forall(p, t); v.template node<ipr::Forall>(n);
              v.operands(same(n.source(), p) && same(n.target(), t) && same(n.first(), p) && same(n.second(), t)); v.typed(n, &lx.typename_type()); return; }
      ZCASE { v.generative(); const ipr::Auto& n = lx.get_auto(); v.template node<ipr::Auto>(n); v.operands(!same(n, lx.get_auto())); v.typed(n, &lx.typename_type()); return; }
      ZCASE { const ipr::Expr& e = w.e(); unsigned how = w.pick(3); const ipr::Transfer& foreign = lx.get_transfer(lx.c_linkage(), lx.get_calling_convention(u8"cc")); const ipr::Transfer& natural = lx.get_transfer(lx.cxx_linkage(), lx.get_calling_convention(u8""));
              const ipr::As_type& n = how == 0 ? lx.get_as_type(e) : lx.get_as_type(e, how == 2 ? foreign : natural); v.template node<ipr::As_type>(n);
              v.operands(same(n.expr(), e) && same(n.operand(), e) && (how == 2 ? n.transfer() == foreign : n.transfer() == lx.int_type().transfer())); v.typed(n, &lx.typename_type()); return; }
      ZCASE { const ipr::Identifier& i = w.id(); const ipr::As_type& n = lx.get_as_type(i); v.template node<ipr::As_type>(n); v.operands(same(n.name(), i) && same(n.expr(), n)); v.typed(n, &lx.typename_type()); return; }
      ZCASE { v.generative(); uint64_t kd = w.nd() & 0xff; impl::Enum* e = lx.make_enum(*w.reg, ipr::Enum::Kind(kd)); const ipr::Enum& n = *e; v.template node<ipr::Enum>(n);
              bool ok = (uint64_t)n.kind() == kd && same(n.region().enclosing(), *w.reg) && !n.base().is_valid() && n.members().size() == 0 && vp_outcome([&] { n.name(); }) == 1;
              const ipr::Name& nm = w.n(); e->id = &nm; const ipr::Type& b = w.t(); e->underlying = &b; const ipr::Enumerator& en = *e->add_member(w.id());
              v.operands(ok && same(n.name(), nm) && same(n.base().get(), b) && n.members().size() == 1 && same(en.type(), n)); v.typed(n, &lx.enum_type()); v.template node<ipr::Enumerator>(en); return; }
      ZCASE { v.generative(); impl::Class* c = lx.make_class(*w.reg); const ipr::Class& n = *c; v.template node<ipr::Class>(n); bool ok = same(n.region().enclosing(), *w.reg) && n.bases().size() == 0 && n.members().size() == 0 && vp_outcome([&] { n.name(); }) == 1;
              const ipr::Name& nm = w.n(); c->id = &nm; const ipr::Type& bt = w.t(); const ipr::Base_type& b = *c->declare_base(bt);
              v.operands(ok && same(n.name(), nm) && n.bases().size() == 1 && same(b.type(), bt)); v.typed(n, &lx.class_type()); v.template node<ipr::Base_type>(b); return; }
      ZCASE { v.generative(); impl::Union* c = lx.make_union(*w.reg); const ipr::Union& n = *c; v.template node<ipr::Union>(n); const ipr::Name& nm = w.n(); c->id = &nm; v.operands(same(n.region().enclosing(), *w.reg) && same(n.name(), nm)); v.typed(n, &lx.union_type()); return; }
      ZCASE { v.generative(); impl::Namespace* c = lx.make_namespace(*w.reg); const ipr::Namespace& n = *c; v.template node<ipr::Namespace>(n); const ipr::Name& nm = w.n(); c->id = &nm; v.operands(same(n.region().enclosing(), *w.reg) && same(n.name(), nm)); v.typed(n, &lx.namespace_type()); return; }
      ZCASE { v.generative(); impl::Closure* c = lx.make_closure(*w.reg); const ipr::Closure& n = *c; v.template node<ipr::Closure>(n); v.operands(same(n.region().enclosing(), *w.reg) && n.members().size() == 0); v.typed(n, &lx.class_type()); return; }
      // ---- names
      ZCASE { const ipr::String& s = w.s(); const ipr::Identifier& n = lx.get_identifier(s); v.template node<ipr::Identifier>(n); v.operands(same(n.string(), s) && same(n.operand(), s)); return; }
      ZCASE { const ipr::Identifier& i = w.id(); const ipr::Suffix& n = lx.get_suffix(i); v.template node<ipr::Suffix>(n); v.operands(same(n.name(), i) && same(n.operand(), i)); return; }
      ZCASE { const ipr::String& s = w.s(); const ipr::Operator& n = lx.get_operator(s); v.template node<ipr::Operator>(n); v.operands(same(n.opname(), s) && same(n.operand(), s)); return; }
      ZCASE { const ipr::Type& t = w.t(); const ipr::Conversion& n = lx.get_conversion(t); v.template node<ipr::Conversion>(n); v.operands(same(n.target(), t) && same(n.operand(), t)); return; }
      ZCASE { const ipr::Type& t = w.t(); const ipr::Ctor_name& n = lx.get_ctor_name(t); v.template node<ipr::Ctor_name>(n); v.operands(same(n.object_type(), t) && same(n.operand(), t)); return; }
      ZCASE { const ipr::Type& t = w.t(); const ipr::Dtor_name& n = lx.get_dtor_name(t); v.template node<ipr::Dtor_name>(n); v.operands(same(n.object_type(), t) && same(n.operand(), t)); return; }
      ZCASE { impl::Warehouse<ipr::Type> w1; w1.push_back(lx.typename_type()); auto& fa = lx.get_forall(lx.get_product(w1), lx.class_type());
              impl::Template* t0 = w.reg->declare_primary_template(*w.I[0], fa); impl::Template* t1 = w.reg->declare_primary_template(*w.I[1], fa); const ipr::Template& t = w.flag() ? *t0 : *t1;
              const ipr::Guide_name& n = lx.get_guide_name(t); v.template node<ipr::Guide_name>(n); v.operands(same(n.mapping_decl(), t) && same(n.operand(), t)); v.template node<ipr::Template>(t); return; }
      ZCASE { const ipr::Type& t = w.t(); const ipr::Pointer& p = lx.get_pointer(t); auto tid = util::view<ipr::Type_id>(p.name()); v.operands(tid != nullptr && same(tid->type_expr(), p) && same(tid->operand(), p)); if (tid) v.template node<ipr::Type_id>(*tid); return; }
      ZCASE { const ipr::String& s = w.s(); const ipr::Logogram& n = lx.get_logogram(s); v.template node<ipr::Logogram>(n); v.operands(same(n.what(), s) && same(n.operand(), s)); return; }
      // ---- declarations through scopes and member lists
      ZCASE { v.generative(); const ipr::Name& nm = w.n(); const ipr::Type& ty = w.t(); impl::Var* d = w.reg->declare_var(nm, ty); const ipr::Var& n = *d; v.template node<ipr::Var>(n);
              bool ok = same(n.name(), nm) && same(n.type(), ty) && !n.initializer().is_valid() && util::rep(n.specifiers()) == 0; uint64_t sp = w.nd(); d->specifiers(ipr::Specifiers(sp)); const ipr::Expr& i = w.e(); d->init = &i;
              v.operands(ok && util::rep(n.specifiers()) == sp && same(n.initializer().get(), i)); v.typed(n, &ty); return; }
      ZCASE { v.generative(); const ipr::Name& nm = w.n(); const ipr::Type& ty = w.t(); impl::Field* d = w.reg->declare_field(nm, ty); const ipr::Field& n = *d; v.template node<ipr::Field>(n); v.operands(same(n.name(), nm) && same(n.type(), ty) && !n.initializer().is_valid()); v.typed(n, &ty); return; }
      ZCASE { v.generative(); const ipr::Name& nm = w.n(); const ipr::Type& ty = w.t(); impl::Bitfield* d = w.reg->declare_bitfield(nm, ty); const ipr::Bitfield& n = *d; v.template node<ipr::Bitfield>(n); bool ok = vp_outcome([&] { n.precision(); }) == 1;
              const ipr::Expr& p = w.e(); d->length = &p; v.operands(ok && same(n.name(), nm) && same(n.type(), ty) && same(n.precision(), p)); v.typed(n, &ty); return; }
      ZCASE { v.generative(); const ipr::Name& nm = w.n(); const ipr::Expr& i = *lx.make_id_expr(w.n(), w.t()); impl::Alias* d = w.reg->scope.make_alias(nm, i); const ipr::Alias& n = *d; v.template node<ipr::Alias>(n);
              v.operands(same(n.name(), nm) && n.initializer().is_valid() && same(n.initializer().get(), i)); v.typed(n, &i.type()); return; }
      ZCASE { v.generative(); const ipr::Name& nm = w.n(); const ipr::Type& ty = w.t(); impl::Typedecl* d = w.reg->declare_type(nm, ty); const ipr::Typedecl& n = *d; v.template node<ipr::Typedecl>(n); v.operands(same(n.name(), nm) && same(n.type(), ty) && !n.initializer().is_valid()); v.typed(n, &ty); return; }
      ZCASE { v.generative(); impl::Warehouse<ipr::Type> w1; w1.push_back(w.t()); const ipr::Function& ft = lx.get_function(lx.get_product(w1), w.t()); const ipr::Name& nm = w.n(); impl::Fundecl* d = w.reg->declare_fun(nm, ft); const ipr::Fundecl& n = *d;
              v.template node<ipr::Fundecl>(n); bool ok = same(n.name(), nm) && same(n.type(), ft) && !n.mapping().is_valid() && !n.initializer().is_valid() && vp_outcome([&] { n.parameters(); }) == 1;
              impl::Mapping* m = lx.make_mapping(*w.reg, Mapping_level{ 0 }); d->data.template emplace<1>(m); v.operands(ok && n.mapping().is_valid() && same(n.mapping().get(), *m) && same(n.parameters(), m->parameters()) && same(n.initializer().get(), *m)); v.typed(n, &ft); return; }
      ZCASE { v.generative(); uint64_t lvl = w.nd(); impl::Mapping* m = lx.make_mapping(*w.reg, Mapping_level{ lvl }); const ipr::Name& nm = w.n(); const ipr::Type& ty = w.t(); impl::Parameter* p = m->param(nm, ty); const ipr::Parameter& n = *p;
              v.template node<ipr::Parameter>(n); bool ok = same(n.name(), nm) && same(n.type(), ty) && util::rep(n.level()) == lvl && util::rep(n.position()) == 0 && !n.default_value().is_valid();
              const ipr::Expr& dv = w.e(); p->init = &dv; v.operands(ok && same(n.default_value().get(), dv)); v.typed(n, &ty); return; }
      ZCASE { v.generative(); uint64_t q = w.nd(); const ipr::Expr& a = w.e(); const ipr::Type& ty = w.t(); const ipr::Qualification& n = *lx.make_qualification(a, ipr::Qualifiers(q), ty); v.template node<ipr::Qualification>(n);
              v.operands(same(n.expr(), a) && same(n.first(), a) && util::rep(n.qualifiers()) == q && util::rep(n.second()) == q); v.typed(n, &ty); return; }
      ZCASE { v.generative(); const ipr::Name& nm = w.n(); const ipr::Type& ty = w.t(); impl::Alias* d = w.reg->declare_alias(nm, ty); const ipr::Alias& n = *d; v.template node<ipr::Alias>(n);
              v.operands(same(n.name(), nm) && n.initializer().is_valid() && same(n.initializer().get(), ty)); v.typed(n, &lx.typename_type()); return; }          // an alias for a type has the type of its initializer
      ZCASE { v.generative(); impl::Warehouse<ipr::Type> w1; w1.push_back(lx.typename_type()); auto& fa = lx.get_forall(lx.get_product(w1), w.t()); const ipr::Name& nm = w.n(); bool primary = w.flag();
              impl::Template* t = primary ? w.reg->declare_primary_template(nm, fa) : w.reg->declare_secondary_template(nm, fa); const ipr::Template& n = *t; v.template node<ipr::Template>(n);
              bool ok = same(n.name(), nm) && same(n.type(), fa) && vp_outcome([&] { n.mapping(); }) == 1 && n.specializations().size() == 0;
              { bool redecl = n.decl_set().size() > 1; const ipr::Template* pt = nullptr; int out = vp_outcome([&] { pt = &n.primary_template(); });      /* a first primary declaration is its own primary template; a redeclaration shares what its master recorded (possibly nothing: logic_error) */
                ok = ok && out != 2 && (redecl || !primary || (out == 0 && pt == &n)); }
              impl::Mapping* m = lx.make_mapping(*w.reg, Mapping_level{ 1 }); m->param(w.n(), lx.typename_type()); const ipr::Expr& body = w.e(); m->body = &body; t->init = m;
              v.operands(ok && same(n.mapping(), *m) && same(n.parameters(), m->parameters()) && same(n.result(), body) && n.initializer().is_valid() && same(n.initializer().get(), body)); v.typed(n, &fa); return; }
      ZCASE { const ipr::String& s = w.s(); const ipr::Linkage& k = w.flag() ? lx.get_linkage(s) : lx.get_linkage(s.characters()); const ipr::Calling_convention& cc = lx.get_calling_convention(w.s().characters());
              const ipr::Transfer& t = lx.get_transfer(k, cc); const ipr::Transfer& tl = lx.get_transfer_from_linkage(k); const ipr::Transfer& tc = lx.get_transfer_from_convention(cc);
              v.template node<ipr::Transfer>(t); v.template node<ipr::Transfer>(tl); v.template node<ipr::Transfer>(tc);
              v.operands(same(k.language().what(), s) && t.linkage() == k && t.convention() == cc && tl.linkage() == k && tl.convention() == lx.int_type().transfer().convention() && tc.convention() == cc && tc.linkage() == lx.cxx_linkage()); return; }
      // ---- tokens, attributes, captures
      ZCASE { const ipr::String& s = w.s(); ipr::Source_location loc; uint64_t a = w.nd(), b = w.nd(); loc.line = ipr::Line_number(uint32_t(a)); loc.column = ipr::Column_number(uint32_t(a >> 32)); loc.file = ipr::File_index(uint32_t(b));
              const impl::Token& tk = *w.own(new impl::Token(s, loc, ipr::TokenValue(uint16_t(b >> 32)), ipr::TokenCategory(uint8_t(b >> 48)))); /* Lexicon::make_token is declared but not defined by the library */ const ipr::Token& n = tk; v.template node<ipr::Token>(n); v.template node<ipr::Lexeme>(n.lexeme());
              v.operands(same(n.lexeme().spelling(), s) && util::rep(n.lexeme().locus().line) == uint32_t(a) && util::rep(n.lexeme().locus().column) == uint32_t(a >> 32) && util::rep(n.lexeme().locus().file) == uint32_t(b)
                         && util::rep(n.value()) == uint16_t(b >> 32) && util::rep(n.category()) == uint8_t(b >> 48)); return; }
      ZCASE { impl::attr_factory* af = w.own(new impl::attr_factory); ipr::Source_location loc { };
              const ipr::Token& t0 = *w.own(new impl::Token(*w.S[0], loc, ipr::TokenValue{ }, ipr::TokenCategory{ })); const ipr::Token& t1 = *w.own(new impl::Token(*w.S[1], loc, ipr::TokenValue{ }, ipr::TokenCategory{ }));
              const ipr::Token& ta = w.flag() ? t0 : t1; const ipr::Token& tb = w.flag() ? t0 : t1;
              const ipr::BasicAttribute& ba = af->make_basic_attribute(ta); const ipr::ScopedAttribute& sa = af->make_scoped_attribute(ta, tb); const ipr::LabeledAttribute& la = af->make_labeled_attribute(ta, sa);
              impl::ref_sequence<ipr::Attribute>* args = w.own(new impl::ref_sequence<ipr::Attribute>); args->push_back(&ba);
              const ipr::CalledAttribute& ca = af->make_called_attribute(la, *args); const ipr::ExpandedAttribute& xa = af->make_expanded_attribute(tb, ca); const ipr::FactoredAttribute& fa = af->make_factored_attribute(ta, *args);
              const ipr::Expr& e = w.e(); const ipr::ElaboratedAttribute& ea = af->make_elaborated_attribute(e);
              v.operands(same(ba.token(), ta) && same(sa.scope(), ta) && same(sa.member(), tb) && same(la.label(), ta) && same(la.attribute(), sa) && same(ca.function(), la) && same(ca.arguments(), *args)
                         && same(xa.expander(), tb) && same(static_cast<const ipr::ExpandedAttribute&>(xa).operand(), ca) && same(fa.factor(), ta) && same(fa.terms(), *args) && same(ea.elaboration(), e));
              v.template node<ipr::BasicAttribute>(ba); v.template node<ipr::ScopedAttribute>(sa); v.template node<ipr::LabeledAttribute>(la); v.template node<ipr::CalledAttribute>(ca);
              v.template node<ipr::ExpandedAttribute>(xa); v.template node<ipr::FactoredAttribute>(fa); v.template node<ipr::ElaboratedAttribute>(ea); return; }
      ZCASE { impl::capture_spec_factory* cf = w.own(new impl::capture_spec_factory); uint64_t m = w.nd() & 0xff; ipr::Binding_mode bm = ipr::Binding_mode(m);
              const ipr::Name& captured = w.n(); bool by_identifier = util::view<ipr::Identifier>(captured) != nullptr;      /* the captured entity may be named by something that is not an identifier (an operator) */
              impl::Var* d = w.reg->declare_var(captured, w.t()); const ipr::Identifier& i = w.id(); const ipr::Expr& e = w.e();
              auto& dc = cf->default_capture(bm); auto& io = cf->implicit_object_capture(bm); auto& el = cf->enclosing_local_capture(*d, bm); auto& bc = cf->binding_capture(i, e, bm); auto& ex = cf->expansion_capture(w.flag() ? static_cast<const ipr::Capture_specification::Named&>(el) : bc);
              v.operands((uint64_t)dc.mode() == m && (uint64_t)io.how() == m && (uint64_t)el.mode() == m && same(el.declaration(), *d) && (by_identifier ? same(el.name(), d->name()) : vp_outcome([&] { (void)el.name(); }) == 1) && (uint64_t)bc.mode() == m && same(bc.name(), i) && same(bc.initializer(), e)
                         && (same(ex.what(), el) || same(ex.what(), bc)));
              v.template node<ipr::Capture_specification::Default>(dc); v.template node<ipr::Capture_specification::Implicit_object>(io); v.template node<ipr::Capture_specification::Enclosing_local>(el);
              v.template node<ipr::Capture_specification::Binding>(bc); v.template node<ipr::Capture_specification::Expansion>(ex); return; }
      // ---- declarator forms (region-owned factory)
      ZCASE { auto& ff = *w.reg; const ipr::Identifier& i = w.id(); const ipr::Expr& sc = w.e();
              const ipr::cxx_form::Constraint::Monadic& m0 = *ff.make_monadic_constraint(i); const ipr::cxx_form::Constraint::Monadic& m1 = *ff.make_monadic_constraint(sc, i);
              const ipr::cxx_form::Constraint::Polyadic& p0 = *ff.make_polyadic_constraint(i); const ipr::cxx_form::Constraint::Polyadic& p1 = *ff.make_polyadic_constraint(sc, i);
              v.operands(same(m0.concept_name(), i) && !m0.scope().is_valid() && same(m1.concept_name(), i) && same(m1.scope().get(), sc) && same(p0.concept_name(), i) && !p0.scope().is_valid() && p0.trailing_arguments().size() == 0
                         && same(p1.concept_name(), i) && same(p1.scope().get(), sc));
              v.template node<ipr::cxx_form::Constraint::Monadic>(m0); v.template node<ipr::cxx_form::Constraint::Monadic>(m1); v.template node<ipr::cxx_form::Constraint::Polyadic>(p0); v.template node<ipr::cxx_form::Constraint::Polyadic>(p1); return; }
      ZCASE { auto& ff = *w.reg; const ipr::Expr& x = w.e(); const ipr::Name& nm = w.n(); const ipr::Expr& sc = w.e();
              const ipr::cxx_form::Requirement::Simple& s = *ff.make_simple_requirement(x); const ipr::cxx_form::Requirement::Type& t0 = *ff.make_type_requirement(nm); const ipr::cxx_form::Requirement::Type& t1 = *ff.make_type_requirement(sc, nm);
              auto* cr = ff.make_compound_requirement(x); const ipr::cxx_form::Requirement::Compound& c = *cr; const ipr::cxx_form::Requirement::Nested& ne = *ff.make_nested_requirement(x);
              bool ok = same(s.expr(), x) && same(t0.type_name(), nm) && !t0.scope().is_valid() && same(t1.type_name(), nm) && same(t1.scope().get(), sc) && same(c.expr(), x) && !c.constraint().is_valid() && !c.nothrow() && same(ne.condition(), x);
              cr->has_noexcept = true; v.operands(ok && c.nothrow());
              v.template node<ipr::cxx_form::Requirement::Simple>(s); v.template node<ipr::cxx_form::Requirement::Type>(t0); v.template node<ipr::cxx_form::Requirement::Type>(t1); v.template node<ipr::cxx_form::Requirement::Compound>(c); v.template node<ipr::cxx_form::Requirement::Nested>(ne); return; }
      ZCASE { auto& ff = *w.reg; uint64_t q = w.nd(); uint64_t fl = w.nd() & 0xffffffffu; const ipr::Expr& sc = w.e();
              const ipr::cxx_form::Indirector::Pointer& p = *ff.make_pointer_indirector(ipr::Qualifiers(q)); const ipr::cxx_form::Indirector::Reference& r = *ff.make_reference_indirector(ipr::cxx_form::Reference_flavor(fl));
              const ipr::cxx_form::Indirector::Member& m = *ff.make_member_indirector(sc, ipr::Qualifiers(q));
              v.operands(util::rep(p.qualifiers()) == q && (uint64_t)(unsigned)r.flavor() == fl && same(m.scope(), sc) && util::rep(m.qualifiers()) == q && p.attributes().size() == 0);
              v.template node<ipr::cxx_form::Indirector::Pointer>(p); v.template node<ipr::cxx_form::Indirector::Reference>(r); v.template node<ipr::cxx_form::Indirector::Member>(m); return; }
      ZCASE { auto& ff = *w.reg; const ipr::Name& nm = w.n(); const ipr::Identifier& i = w.id(); const ipr::Expr& sc = w.e();
              const ipr::cxx_form::Species_declarator::Unqualified_id& u0 = *ff.make_unqualified_id_species(); const ipr::cxx_form::Species_declarator::Unqualified_id& u1 = *ff.make_unqualified_id_species(nm);
              const ipr::cxx_form::Species_declarator::Pack& p0 = *ff.make_pack_species(); const ipr::cxx_form::Species_declarator::Pack& p1 = *ff.make_pack_species(i);
              const ipr::cxx_form::Species_declarator::Qualified_id& q = *ff.make_qualified_id_species(sc, nm); auto* ps = ff.make_parenthesized_species(); const ipr::cxx_form::Species_declarator::Parenthesized& pa = *ps;
              bool ok = !u0.name().is_valid() && same(u1.name().get(), nm) && !p0.name().is_valid() && same(p1.name().get(), i) && same(q.scope(), sc) && same(q.member(), nm) && vp_outcome([&] { pa.term(); }) == 1 && u0.suffix().size() == 0 && u0.attributes().size() == 0;
              auto* td = ff.make_term_declarator(); ps->declarator = td; v.operands(ok && same(pa.term(), *td));
              v.template node<ipr::cxx_form::Species_declarator::Unqualified_id>(u0); v.template node<ipr::cxx_form::Species_declarator::Unqualified_id>(u1); v.template node<ipr::cxx_form::Species_declarator::Pack>(p0);
              v.template node<ipr::cxx_form::Species_declarator::Pack>(p1); v.template node<ipr::cxx_form::Species_declarator::Qualified_id>(q); v.template node<ipr::cxx_form::Species_declarator::Parenthesized>(pa); return; }
      ZCASE { v.generative(); auto& ff = *w.reg; uint64_t lvl = w.nd(); auto* fm = ff.make_function_morphism(*w.reg, Mapping_level{ lvl }); const ipr::cxx_form::Morphism::Function& f = *fm; auto* am = ff.make_array_morphism(); const ipr::cxx_form::Morphism::Array& a = *am;
              bool ok = util::rep(f.parameters().level()) == lvl && same(f.parameters().region().enclosing(), *w.reg) && !f.throws().is_valid() && util::rep(f.qualifiers()) == 0 && f.binding_mode() == ipr::Binding_mode::Copy && !a.bound().is_valid() && f.attributes().size() == 0;
              const ipr::Expr& b = w.e(); am->array_bound = &b; uint64_t q = w.nd(); fm->quals = ipr::Qualifiers(q); fm->eh_spec = &b;
              v.operands(ok && same(a.bound().get(), b) && util::rep(f.qualifiers()) == q && same(f.throws().get(), b));
              v.template node<ipr::cxx_form::Morphism::Function>(f); v.template node<ipr::cxx_form::Morphism::Array>(a); return; }
      ZCASE { v.generative(); auto& ff = *w.reg; auto* td = ff.make_term_declarator(); const ipr::cxx_form::Declarator::Term& t = *td; auto* sp = ff.make_unqualified_id_species(w.n()); const ipr::Type& ty = w.t();
              const ipr::cxx_form::Declarator::Targeted& tg = *ff.make_targeted_declarator(*sp, ty);
              bool ok = t.indirectors().size() == 0 && vp_outcome([&] { t.species(); }) == 1 && same(tg.species(), *sp) && same(tg.target(), ty);
              td->tail = sp; v.operands(ok && same(t.species(), *sp)); v.template node<ipr::cxx_form::Declarator::Term>(t); v.template node<ipr::cxx_form::Declarator::Targeted>(tg); return; }
      ZCASE { v.generative(); auto& ff = *w.reg; const ipr::Expr& x = w.e(); auto* bp = ff.make_braced_provision(); auto* dp = ff.make_designated_provision(); const ipr::cxx_form::Braced_provision& b = *bp; const ipr::cxx_form::Designated_list_provision& d = *dp;
              const ipr::cxx_form::Elemental_initializer& ei = w.flag() ? static_cast<const ipr::cxx_form::Elemental_initializer&>(b) : d;
              const ipr::cxx_form::Classic_provision& c = *ff.make_classic_provision(ei); const ipr::cxx_form::Parenthesized_provision& p = *ff.make_parenthesized_provision(x);
              const ipr::Identifier& i = w.id(); const ipr::cxx_form::Field_designator& fd = *ff.make_field_designator(i); const ipr::cxx_form::Slot_designator& sd = *ff.make_slot_designator(x);
              bool ok = same(c.initializer(), ei) && same(p.initializer(), x) && b.elements().size() == 0 && d.elements().size() == 0 && same(fd.name(), i) && same(sd.index(), x);
              dp->seq.push_back(fd, p); v.operands(ok && d.elements().size() == 1 && same(d.elements().position(0)->subobject(), fd) && same(d.elements().position(0)->initializer(), p));
              {  /* nested initializer lists: the pointers the factory returned are appended to the braced list; each element is that very initializer (as an Elemental_initializer) */
                 auto* in_b = ff.make_braced_provision(); auto* in_d = ff.make_designated_provision(); bp->seq.push_back(in_b); bp->seq.push_back(in_d);
                 const ipr::cxx_form::Elemental_initializer* e0 = in_b; const ipr::cxx_form::Elemental_initializer* e1 = in_d;
                 v.operands(b.elements().size() == 2 && &*b.elements().position(0) == e0 && &*b.elements().position(1) == e1);
                 struct Which : ipr::cxx_form::Initializer_visitor { int hit = 0;
                    void visit(const ipr::cxx_form::Expr_initializer&) override { hit = 1; } void visit(const ipr::cxx_form::Braced_provision&) override { hit = 2; } void visit(const ipr::cxx_form::Designated_list_provision&) override { hit = 3; } } wh0, wh1;
                 b.elements().position(0)->accept(wh0); b.elements().position(1)->accept(wh1); v.operands(wh0.hit == 2 && wh1.hit == 3); }
              v.template node<ipr::cxx_form::Classic_provision>(c); v.template node<ipr::cxx_form::Parenthesized_provision>(p); v.template node<ipr::cxx_form::Braced_provision>(b); v.template node<ipr::cxx_form::Designated_list_provision>(d);
              v.template node<ipr::cxx_form::Field_designator>(fd); v.template node<ipr::cxx_form::Slot_designator>(sd); return; }
      // ---- process-wide constants, scopes, regions, overloads
      ZCASE { const ipr::Lexicon& cl = lx; const ipr::Symbol* syms[5] = { &cl.true_value(), &cl.false_value(), &cl.nullptr_value(), &cl.default_value(), &cl.delete_value() }; unsigned i = w.pick(5);
              v.template node<ipr::Symbol>(*syms[i]); v.operands(true);
              const ipr::Type* ty[5] = { &cl.bool_type(), &cl.bool_type(), nullptr, nullptr, &cl.void_type() }; if (ty[i]) v.typed(*syms[i], ty[i]);
              if (i == 2) { auto dt = util::view<ipr::Decltype>(syms[2]->type()); if (dt) { v.template node<ipr::Decltype>(*dt); v.typed(*dt, &cl.typename_type()); } }
              auto idn = util::view<ipr::Identifier>(syms[i]->name()); if (idn) v.template node<ipr::Identifier>(*idn); return; }
      ZCASE { const ipr::Lexicon& cl = lx; const ipr::Type* bt[] = { &cl.void_type(), &cl.int_type(), &cl.typename_type(), &cl.class_type(), &cl.ellipsis_type(), &cl.long_double_type() }; const ipr::Type& t = *bt[w.pick(6)];
              auto at = util::view<ipr::As_type>(t); v.operands(at != nullptr); if (at) { v.template node<ipr::As_type>(*at); v.typed(*at, &cl.typename_type()); } return; }
      ZCASE { v.template node<ipr::String>(ipr::String::empty_string()); v.template node<ipr::String>(*w.S[0]); v.template node<ipr::String>(lx.get_string(u8"int")); v.operands(true); return; }
      ZCASE { const ipr::Region& r = *w.reg; v.template node<ipr::Region>(r); const ipr::Scope& sc = r.bindings(); v.template node<ipr::Scope>(sc);
              impl::Var* d = w.reg->declare_var(w.n(), w.t()); auto ovl = sc[d->name()]; v.operands(ovl.is_valid()); if (ovl.is_valid()) { v.template node<ipr::Overload>(ovl.get()); v.typed(ovl.get(), nullptr); }
              v.typed(sc, nullptr == nullptr ? &sc.type() : nullptr); return; }
      ZCASE { v.generative(); impl::Mapping* m = lx.make_mapping(*w.reg, Mapping_level{ 1 }); m->param(w.n(), w.t()); const ipr::Region& r = m->parameters().region(); v.template node<ipr::Region>(r); const ipr::Scope& sc = r.bindings(); v.template node<ipr::Scope>(sc);
              auto ovl = sc[m->parameters().elements().position(0)->name()]; v.operands(ovl.is_valid()); if (ovl.is_valid()) v.template node<ipr::Overload>(ovl.get()); return; }
      ZCASE { impl::Module* mod = w.own(new impl::Module(lx)); impl::Module_unit* u = mod->make_unit();
              v.template node<ipr::Translation_unit>(w.unit); v.template node<ipr::Module_unit>(*u); v.template node<ipr::Interface_unit>(static_cast<const ipr::Module&>(*mod).interface_unit()); v.template node<ipr::Module>(*mod);
              v.operands(same(static_cast<const ipr::Module_unit&>(*u).parent_module(), *mod)); return; }
      if (total) *total = k;
#undef ZCASE
   }
}
#endif

namespace zoo {
   struct Null_visitor { void generative() { } template<class I> void node(const I&) { } void operands(bool) { } template<class N> void typed(const N&, const ipr::Type*) { } };
   inline unsigned count() { World* w = new World; Null_visitor nv; unsigned total = 0; build(*w, ~0u, nv, &total); delete w; return total; }
}
