// C10 — specifier and qualifier sets are a Boolean algebra with exact decomposition.
#include "common.h"
#ifndef C10_WINDOW
#define C10_WINDOW 6
#endif
#ifndef C10_K
#define C10_K 3
#endif
namespace {
   const char8_t* const spec_names[18] = { u8"=0", u8"export", u8"public", u8"protected", u8"private", u8"consteval", u8"constexpr", u8"constinit", u8"explicit",
      u8"extern", u8"friend", u8"inline", u8"mutable", u8"register", u8"static", u8"thread_local", u8"typedef", u8"virtual" };
   const char8_t* const qual_names[3] = { u8"const", u8"volatile", u8"restrict" };
   struct World {
      impl::Lexicon lx;
      const ipr::Logogram* SL[18]; const ipr::Logogram* QL[3];
      World() {
         for (int i = 0; i < 18; ++i) SL[i] = &lx.get_logogram(lx.get_string(spec_names[i]));
         for (int i = 0; i < 3; ++i) QL[i] = &lx.get_logogram(lx.get_string(qual_names[i]));
      }
   };
   inline bool single_bit(uint64_t x) { return x != 0 && (x & (x - 1)) == 0; }
}
// singletons and named accessors (finite, exhaustive)
extern "C" void h_singletons(void) {
   World* w = new World; const ipr::Lexicon& lx = w->lx;
   uint64_t s[18], q[3];
   for (int i = 0; i < 18; ++i) { s[i] = util::rep(lx.specifiers(ipr::Basic_specifier{ *w->SL[i] })); vp_assert(single_bit(s[i]), 1); }
   for (int i = 0; i < 18; ++i) for (int j = i + 1; j < 18; ++j) vp_assert(s[i] != s[j], 2);
   for (int i = 0; i < 3; ++i) { q[i] = util::rep(lx.qualifiers(ipr::Basic_qualifier{ *w->QL[i] })); vp_assert(single_bit(q[i]), 3); }
   for (int i = 0; i < 3; ++i) for (int j = i + 1; j < 3; ++j) vp_assert(q[i] != q[j], 4);
   struct { ipr::Specifiers v; int idx; } named[] = {
      { lx.abstract_specifier(), 0 }, { lx.export_specifier(), 1 }, { lx.public_specifier(), 2 }, { lx.protected_specifier(), 3 }, { lx.private_specifier(), 4 },
      { lx.consteval_specifier(), 5 }, { lx.constexpr_specifier(), 6 }, { lx.explicit_specifier(), 8 }, { lx.extern_specifier(), 9 }, { lx.friend_specifier(), 10 },
      { lx.inline_specifier(), 11 }, { lx.mutable_specifier(), 12 }, { lx.register_specifier(), 13 }, { lx.static_specifier(), 14 }, { lx.thread_local_specifier(), 15 },
      { lx.typedef_specifier(), 16 }, { lx.virtual_specifier(), 17 } };
   for (auto& n : named) vp_assert(util::rep(n.v) == s[n.idx], 5);
   vp_assert(util::rep(lx.const_qualifier()) == q[0] && util::rep(lx.volatile_qualifier()) == q[1] && util::rep(lx.restrict_qualifier()) == q[2], 6);
   // decomposition of each singleton and of the empty set
   for (int i = 0; i < 18; ++i) { auto d = lx.decompose(ipr::Specifiers(s[i])); vp_assert(d.size() == 1 && d[0] == ipr::Basic_specifier{ *w->SL[i] }, 7); }
   vp_assert(lx.decompose(ipr::Specifiers{}).empty() && lx.decompose(ipr::Qualifiers{}).empty(), 8);
   vp_done();
}
// inverse pair on a window of C10_WINDOW symbolic bits starting at C10 start (symbolic choice of window and of the background)
static void inverse_pair(unsigned start, unsigned width, bool background) {
   World* w = new World; const ipr::Lexicon& lx = w->lx;
   bool sel[18]; ipr::Specifiers u { };
   for (unsigned i = 0; i < 18; ++i) {
      if (i >= start && i < start + width) sel[i] = vp_flag(); else sel[i] = background;
      if (sel[i]) u |= lx.specifiers(ipr::Basic_specifier{ *w->SL[i] });
   }
   auto d = lx.decompose(u);
   unsigned k = 0;
   for (unsigned i = 0; i < 18; ++i) if (sel[i]) { vp_assert(k < d.size() && d[k] == ipr::Basic_specifier{ *w->SL[i] }, 10); ++k; }   // none lost, table order
   vp_assert(k == d.size(), 11);                                                                                                      // none invented, none repeated
   // a second, different set right afterwards (the complement within the basis), then the first one again: no state is carried over
   ipr::Specifiers all { }; for (unsigned i = 0; i < 18; ++i) all |= lx.specifiers(ipr::Basic_specifier{ *w->SL[i] });
   auto d2 = lx.decompose(all ^ u); unsigned k2 = 0;
   for (unsigned i = 0; i < 18; ++i) if (!sel[i]) { vp_assert(k2 < d2.size() && d2[k2] == ipr::Basic_specifier{ *w->SL[i] }, 14); ++k2; }
   vp_assert(k2 == d2.size(), 15);
   auto d3 = lx.decompose(u); vp_assert(d3.size() == d.size(), 16);
   for (unsigned i = 0; i < d.size() && i < d3.size(); ++i) vp_assert(d3[i] == d[i], 17);
   vp_done();
}
extern "C" void h_inverse_windows(void) {
   unsigned nwin = (18 + C10_WINDOW - 1) / C10_WINDOW;
   unsigned win = vp_pick(nwin); bool bg = vp_flag();
   unsigned start = win * C10_WINDOW; unsigned width = start + C10_WINDOW <= 18 ? C10_WINDOW : 18 - start;
   inverse_pair(start, width, bg);
}
extern "C" void h_inverse_all(void) { inverse_pair(0, 18, false); }
extern "C" void h_inverse_quals(void) {
   World* w = new World; const ipr::Lexicon& lx = w->lx;
   bool sel[3]; ipr::Qualifiers u { };
   for (int i = 0; i < 3; ++i) { sel[i] = vp_flag(); if (sel[i]) u |= lx.qualifiers(ipr::Basic_qualifier{ *w->QL[i] }); }
   auto d = lx.decompose(u); unsigned k = 0;
   for (int i = 0; i < 3; ++i) if (sel[i]) { vp_assert(k < d.size() && d[k] == ipr::Basic_qualifier{ *w->QL[i] }, 12); ++k; }
   vp_assert(k == d.size(), 13);
   vp_done();
}
// per-bit lemma and the binary operations, operands symbolic over all 64 bits (no forking)
extern "C" void h_algebra(void) {
   uint64_t a = nondet_ulong(), b = nondet_ulong();
   ipr::Specifiers A { a }, B { b };
   vp_assert(util::rep(A | B) == (a | b), 20);
   vp_assert(util::rep(A & B) == (a & b), 21);
   vp_assert(util::rep(A ^ B) == (a ^ b), 22);
   vp_assert(ipr::implies(A, B) == ((b & ~a) == 0), 23);          // B is a subset of A
   ipr::Specifiers c = A; c |= B; vp_assert(util::rep(c) == (a | b), 24);
   c = A; c &= B; vp_assert(util::rep(c) == (a & b), 25);
   c = A; c ^= B; vp_assert(util::rep(c) == (a ^ b), 26);
   unsigned pos = vp_pick(32);
   vp_assert(ipr::implies(A, ipr::Specifiers{ uint64_t(1u) << pos }) == (((a >> pos) & 1) != 0), 27);   // membership of name i depends on bit i only
   ipr::Qualifiers QA { a }, QB { b };
   vp_assert(util::rep(QA | QB) == (a | b) && util::rep(QA & QB) == (a & b) && util::rep(QA ^ QB) == (a ^ b) && ipr::implies(QA, QB) == ((b & ~a) == 0), 28);
   vp_done();
}
// unknown names are refused
extern "C" void h_unknown(void) {
   World* w = new World; auto& lx = w->lx;
   Word<3> x; x.make(1); vp_not_reserved_range(x.buf[0]);          // not a reserved word, hence not a basic name
   const ipr::Logogram& g = lx.get_logogram(lx.get_string(x.view()));
   VP_REFUSED(static_cast<const ipr::Lexicon&>(lx).specifiers(ipr::Basic_specifier{ g }), 30);
   VP_REFUSED(static_cast<const ipr::Lexicon&>(lx).qualifiers(ipr::Basic_qualifier{ g }), 31);
   // a basic qualifier name is not a basic specifier name and vice versa
   VP_REFUSED(static_cast<const ipr::Lexicon&>(lx).specifiers(ipr::Basic_specifier{ *w->QL[vp_pick(3)] }), 32);
   VP_REFUSED(static_cast<const ipr::Lexicon&>(lx).qualifiers(ipr::Basic_qualifier{ *w->SL[vp_pick(18)] }), 33);
   vp_done();
}
// histories of lookups: each step asks one family (specifiers / qualifiers) for one name out of a pool holding basic specifier
// names (first, middle, last table rows), basic qualifier names and a non-basic name; every answer depends on (family, name) only
extern "C" void h_lookup_history(void) {
   World* w = new World; const ipr::Lexicon& lx = w->lx;
   const ipr::Logogram& unknown = w->lx.get_logogram(w->lx.get_string(u8"zzz"));
   struct { const ipr::Logogram* g; int spec; int qual; } pool[] = { { w->SL[0], 0, -1 }, { w->SL[2], 2, -1 }, { w->SL[9], 9, -1 }, { w->SL[17], 17, -1 },
      { w->QL[0], -1, 0 }, { w->QL[1], -1, 1 }, { w->QL[2], -1, 2 }, { &unknown, -1, -1 } };
   uint64_t sbit[18], qbit[3]; bool shave[18] = { }, qhave[3] = { };
   for (int k = 0; k < C10_K; ++k) {
      unsigned n = vp_pick(8); bool fam = vp_flag();
      uint64_t v = 0; int out;
      if (fam) out = vp_outcome([&] { v = util::rep(lx.specifiers(ipr::Basic_specifier{ *pool[n].g })); });
      else out = vp_outcome([&] { v = util::rep(lx.qualifiers(ipr::Basic_qualifier{ *pool[n].g })); });
      int idx = fam ? pool[n].spec : pool[n].qual;
      vp_assert((out == 0) == (idx >= 0), 40);                       // answered exactly for the names of the family asked
      if (out == 0 && idx >= 0) {
         vp_assert(single_bit(v), 41);
         uint64_t* bit = fam ? sbit : qbit; bool* have = fam ? shave : qhave;
         if (have[idx]) vp_assert(bit[idx] == v, 42);                // the same answer as before
         for (int j = 0; j < (fam ? 18 : 3); ++j) if (j != idx && have[j]) vp_assert(bit[j] != v, 43);
         bit[idx] = v; have[idx] = true;
         // and the answer decomposes to the name asked
         if (fam) { auto d = lx.decompose(ipr::Specifiers(v)); vp_assert(d.size() == 1 && d[0] == ipr::Basic_specifier{ *pool[n].g }, 44); }
         else { auto d = lx.decompose(ipr::Qualifiers(v)); vp_assert(d.size() == 1 && d[0] == ipr::Basic_qualifier{ *pool[n].g }, 45); }
      }
   }
   vp_done();
}
