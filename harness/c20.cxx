// C20 — Lexicons are isolated.  What is decided here is the sequential non-interference lemma that makes every interleaving of
// operations on different Lexicons equivalent to a sequential one: an operation on Lexicon A reads and writes only (i) A and what
// was allocated on A's behalf, (ii) the executing thread's stack, (iii) immutable (IR `constant`) process-wide data.
// Thread schedules themselves are not explored (see DESIGN.md, C20).
#define VP_WITH_IO
#include "fingerprint.h"
#include "vpstream.h"
#ifndef C20_REPS
#define C20_REPS 2
#endif
namespace {
   // prints every expression-derived object of a zoo case (as expression and as declaration) while accesses are classified
   struct Print_nodes {
      const ipr::Lexicon* lx; Tracker* tr;
      void generative() { }
      template<class I> void node(const I& n) {
         tr->template node<I>(n);
         if constexpr (std::is_base_of_v<ipr::Expr, I>) {
            const ipr::Expr& e = n;
            { std::ostringstream& os = *new std::ostringstream; Printer pp { *lx, os }; vp_assert(vp_outcome([&] { pp << xpr_expr(e); }) != 2, 6); }
            { std::ostringstream& os = *new std::ostringstream; Printer pp { *lx, os }; pp.print_locations = true; vp_assert(vp_outcome([&] { pp << xpr_decl(e, true); }) != 2, 6); }
         }
      }
      void operands(bool) { }
      template<class N> void typed(const N&, const ipr::Type*) { }
   };
}
extern "C" void h_isolation(void) {
   unsigned total = zoo::count();
   vp_phase(1);
   // ---- Lexicon B with a unit and a populated scope, fingerprinted
   zoo::World* b = new zoo::World; b->concrete = true;
   Tracker tb;
   for (unsigned k = 0; k < total; k += 7) zoo::build(*b, k, tb);
   b->reg->declare_var(*b->N[0], *b->T[0]); b->reg->declare_var(*b->N[0], *b->T[0]);
   tb.node<ipr::Scope>(b->reg->scope);
   { std::ostringstream& ob = *new std::ostringstream; Printer pb { b->lx, ob }; vp_outcome([&] { pb << b->unit; }); b->lx.decompose(b->lx.static_specifier() | b->lx.inline_specifier()); }
   tb.snapshot();
   vp_phase(2);
   // ---- operations on Lexicon A: every load/store classified by the engine
   zoo::World* a = new zoo::World; a->printable = true;
   unsigned which = vp_pick(total);
   vp_observe(1, which);
   Tracker ta; Print_nodes pn { &a->lx, &ta }; zoo::build(*a, which, pn); ta.snapshot();
   a->concrete = true;
   zoo::Null_visitor nv;
   for (int r = 0; r < C20_REPS; ++r) zoo::build(*a, which, nv);
   ta.recheck(1);
   {  // decomposition of specifier / qualifier sets and printing of a unit with specifiers, qualified types and a literal
      auto sp = a->lx.decompose(a->lx.static_specifier() | a->lx.constexpr_specifier() | a->lx.extern_specifier());
      auto ql = a->lx.decompose(a->lx.const_qualifier() | a->lx.volatile_qualifier());
      vp_assert(sp.size() == 3 && ql.size() == 2, 4);
      impl::Var* v = a->reg->declare_var(*a->N[0], a->lx.get_qualified(a->lx.const_qualifier(), *a->T[0])); v->specifiers(a->lx.static_specifier() | a->lx.thread_local_specifier());
      v->init = a->lx.make_literal(*a->T[0], u8"12");
      std::ostringstream& oa = *new std::ostringstream; Printer pa { a->lx, oa };
      vp_assert(vp_outcome([&] { pa << xpr_decl(*v, true); }) == 0 && vp_stream_contains(&oa, "const int"), 5);
   }
   vp_phase(0);
   // ---- B is exactly as it was; the only nodes the two have in common are process-wide constants
   tb.recheck(2);
   for (int i = 0; i < ta.n; ++i) for (int j = 0; j < tb.n; ++j) if (ta.rec[i].p == tb.rec[j].p) {
      bool in_a = (const char*)ta.rec[i].p >= (const char*)a && (const char*)ta.rec[i].p < (const char*)(a + 1);
      vp_assert(!in_a, 3);
   }
   vp_done();
}
