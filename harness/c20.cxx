// C20 — Lexicons are isolated.  What is decided here is the sequential non-interference lemma that makes every interleaving of
// operations on different Lexicons equivalent to a sequential one: an operation on Lexicon A reads and writes only (i) A and what
// was allocated on A's behalf, (ii) the executing thread's stack, (iii) immutable (IR `constant`) process-wide data.
// Thread schedules themselves are not explored (see DESIGN.md, C20).
#define VP_WITH_IO
#include "fingerprint.h"
#include "vpstream.h"
#ifndef C20_REPS
#define C20_REPS 2
#endif
namespace {
   // prints every expression-derived object of a zoo case (as expression and as declaration) while accesses are classified
   struct Print_nodes {
      const ipr::Lexicon* lx; Tracker* tr;
      void generative() { }
      template<class I> void node(const I& n) {
         tr->template node<I>(n);
         if constexpr (std::is_base_of_v<ipr::Expr, I>) {
            const ipr::Expr& e = n;
            { std::ostringstream& os = *new std::ostringstream; Printer pp { *lx, os }; vp_assert(vp_outcome([&] { pp << xpr_expr(e); }) != 2, 6); }
            { std::ostringstream& os = *new std::ostringstream; Printer pp { *lx, os }; pp.print_locations = true; vp_assert(vp_outcome([&] { pp << xpr_decl(e, true); }) != 2, 6); }
         }
      }
      void operands(bool) { }
      template<class N> void typed(const N&, const ipr::Type*) { }
   };
}
extern "C" void h_isolation(void) {
   unsigned total = zoo::count();
   vp_phase(1);
   // ---- Lexicon B with a unit and a populated scope, fingerprinted
   zoo::World* b = new zoo::World; b->concrete = true;
   Tracker tb;
   for (unsigned k = 0; k < total; k += 7) { b->reg = b->unit.global_region()->make_subregion(); zoo::build(*b, k, tb); }      // each case declares into a scope of its own
   b->reg = b->unit.global_region();
   b->reg->declare_var(*b->N[0], *b->T[0]); b->reg->declare_var(*b->N[0], *b->T[0]);
   tb.node<ipr::Scope>(b->reg->scope);
   { std::ostringstream& ob = *new std::ostringstream; Printer pb { b->lx, ob }; vp_outcome([&] { pb << b->unit; }); b->lx.decompose(b->lx.static_specifier() | b->lx.inline_specifier()); }
   tb.snapshot();
   vp_phase(2);
   // ---- operations on Lexicon A: every load/store classified by the engine
   zoo::World* a = new zoo::World; a->printable = true;
   unsigned which = vp_pick(total);
   vp_observe(1, which);
   Tracker ta; Print_nodes pn { &a->lx, &ta }; zoo::build(*a, which, pn); ta.snapshot();
   a->concrete = true;
   zoo::Null_visitor nv;
   for (int r = 0; r < C20_REPS; ++r) zoo::build(*a, which, nv);
   ta.recheck(1);
   {  // decomposition of specifier / qualifier sets and printing of a unit with specifiers, qualified types and a literal
      auto sp = a->lx.decompose(a->lx.static_specifier() | a->lx.constexpr_specifier() | a->lx.extern_specifier());
      auto ql = a->lx.decompose(a->lx.const_qualifier() | a->lx.volatile_qualifier());
      vp_assert(sp.size() == 3 && ql.size() == 2, 4);
      impl::Var* v = a->reg->declare_var(*a->N[0], a->lx.get_qualified(a->lx.const_qualifier(), *a->T[0])); v->specifiers(a->lx.static_specifier() | a->lx.thread_local_specifier());
      v->init = a->lx.make_literal(*a->T[0], u8"12");
      std::ostringstream& oa = *new std::ostringstream; Printer pa { a->lx, oa };
      vp_assert(vp_outcome([&] { pa << xpr_decl(*v, true); }) == 0 && vp_stream_contains(&oa, "const int"), 5);
   }
   vp_phase(0);
   // ---- B is exactly as it was; the only nodes the two have in common are process-wide constants
   tb.recheck(2);
   for (int i = 0; i < ta.n; ++i) for (int j = 0; j < tb.n; ++j) if (ta.rec[i].p == tb.rec[j].p) {
      bool in_a = (const char*)ta.rec[i].p >= (const char*)a && (const char*)ta.rec[i].p < (const char*)(a + 1);
      vp_assert(!in_a, 3);
   }
   vp_done();
}
// coarse interleavings on one thread: the operations of a program on Lexicon A (build a zoo case, look basic names up in both families,
// decompose, print the unit) are interleaved, under a symbolic schedule, with operations on Lexicon B; A's observable results (refusals,
// set values, decompositions, printed text) must be those of the same program run alone on a third Lexicon.  This is the
// "each thread obtains exactly the results it would obtain alone" clause for the schedules that switch between whole operations; it
// also sees state that is shared per thread rather than per process (thread_local), which no race detector reports.
namespace {
   struct Program_result { int refused[4]; uint64_t bits[2]; std::size_t dsize[2]; int print_outcome; std::ostringstream* text; };
   struct Program {
      zoo::World* w; unsigned which; const ipr::Logogram* cq; const ipr::Logogram* pub; const ipr::Logogram* vol;
      explicit Program(unsigned k) : w(new zoo::World), which(k) {
         w->concrete = true; w->printable = true;
         cq = &w->lx.get_logogram(w->lx.get_string(u8"const")); pub = &w->lx.get_logogram(w->lx.get_string(u8"public")); vol = &w->lx.get_logogram(w->lx.get_string(u8"volatile"));
      }
      void build() { zoo::Null_visitor nv; zoo::build(*w, which, nv); }
      void lookups(Program_result& r) {
         const ipr::Lexicon& lx = w->lx; r.bits[0] = r.bits[1] = 0;
         r.refused[0] = vp_outcome([&] { r.bits[0] = util::rep(lx.qualifiers(ipr::Basic_qualifier{ *cq })); });
         r.refused[1] = vp_outcome([&] { (void)lx.specifiers(ipr::Basic_specifier{ *cq }); });             // a qualifier name is not a specifier name
         r.refused[2] = vp_outcome([&] { r.bits[1] = util::rep(lx.specifiers(ipr::Basic_specifier{ *pub })); });
         r.refused[3] = vp_outcome([&] { (void)lx.qualifiers(ipr::Basic_qualifier{ *pub }); });
      }
      void decompose(Program_result& r) {
         r.dsize[0] = w->lx.decompose(w->lx.static_specifier() | w->lx.constexpr_specifier() | w->lx.extern_specifier()).size();
         r.dsize[1] = w->lx.decompose(w->lx.const_qualifier() | w->lx.restrict_qualifier()).size();
      }
      void print(Program_result& r) { r.text = new std::ostringstream; Printer pp { w->lx, *r.text }; pp.print_locations = true; r.print_outcome = vp_outcome([&] { pp << w->unit; }); }
   };
   // what B does in a slot: the mirror-image operations, so that anything remembered between calls is remembered about the other Lexicon
   void other(Program& b, unsigned slot, unsigned last = 0) {
      Program_result r;
      switch (slot) {
      case 0: b.build(); break;
      case 1: { const ipr::Lexicon& lx = b.w->lx;        // B's last lookup is the valid one whose name A is about to ask the other family for
                vp_outcome([&] { (void)lx.qualifiers(ipr::Basic_qualifier{ *b.vol }); });
                if (last == 0) { vp_outcome([&] { (void)lx.specifiers(ipr::Basic_specifier{ *b.pub }); }); vp_outcome([&] { (void)lx.qualifiers(ipr::Basic_qualifier{ *b.cq }); }); }
                else { vp_outcome([&] { (void)lx.qualifiers(ipr::Basic_qualifier{ *b.cq }); }); vp_outcome([&] { (void)lx.specifiers(ipr::Basic_specifier{ *b.pub }); }); }
                break; }
      case 2: b.w->lx.decompose(b.w->lx.virtual_specifier() | b.w->lx.inline_specifier()); b.w->lx.decompose(b.w->lx.volatile_qualifier()); break;
      default: b.print(r); break;
      }
   }
}
extern "C" void h_interleaved(void) {
   unsigned total = zoo::count();
   unsigned which = vp_pick(total);
   vp_observe(1, which);
   Program_result solo, inter;
   { Program p(which); p.build(); p.lookups(solo); p.decompose(solo); p.print(solo); }
   Program a(which), b((which + 1) % total);
   bool s0 = vp_flag(), s1 = vp_flag(), s2 = vp_flag(), s3 = vp_flag();
   if (s0) other(b, 0);
   a.build();
   if (s1) other(b, 1);
   { const ipr::Lexicon& lx = a.w->lx; inter.bits[0] = inter.bits[1] = 0;                      // A's lookups, with B's lookups possibly in between
     inter.refused[0] = vp_outcome([&] { inter.bits[0] = util::rep(lx.qualifiers(ipr::Basic_qualifier{ *a.cq })); });
     if (s1) other(b, 1);
     inter.refused[1] = vp_outcome([&] { (void)lx.specifiers(ipr::Basic_specifier{ *a.cq }); });
     inter.refused[2] = vp_outcome([&] { inter.bits[1] = util::rep(lx.specifiers(ipr::Basic_specifier{ *a.pub })); });
     if (s1) other(b, 1, 1);
     inter.refused[3] = vp_outcome([&] { (void)lx.qualifiers(ipr::Basic_qualifier{ *a.pub }); }); }
   if (s2) other(b, 2);
   a.decompose(inter);
   if (s3) other(b, 3);
   a.print(inter);
   for (int i = 0; i < 4; ++i) vp_assert(inter.refused[i] == solo.refused[i], 10);
   vp_assert(solo.refused[0] == 0 && solo.refused[1] != 0 && solo.refused[2] == 0 && solo.refused[3] != 0, 11);
   vp_assert(inter.bits[0] == solo.bits[0] && inter.bits[1] == solo.bits[1], 12);
   vp_assert(inter.dsize[0] == solo.dsize[0] && inter.dsize[1] == solo.dsize[1] && solo.dsize[0] == 3 && solo.dsize[1] == 2, 13);
   vp_assert(inter.print_outcome == solo.print_outcome && vp_streams_equal(inter.text, solo.text), 14);
   vp_done();
}
// the only nodes two Lexicons have in common are the immutable built-in constants: one fully symbolic spelling (0..C20_L bytes, every
// reserved word of that length included) is requested through every word-keyed constructor of two Lexicons; the results coincide exactly
// where the library documents a process-wide constant (reserved-word identifiers / logograms / strings, the empty string, the C and C++
// linkages, built-in types) and are distinct nodes everywhere else, whichever Lexicon asked first
#ifndef C20_L
#define C20_L 6
#endif
extern "C" void h_common_nodes(void) {
   impl::Lexicon* a = new impl::Lexicon; impl::Lexicon* b = new impl::Lexicon;
   Word<C20_L> w; w.make();
   bool reserved = false; for (auto& k : impl::known_words) if (k.text() == w.view()) reserved = true;
   bool empty = w.len == 0, isC = w.view() == util::word_view(u8"C"), isCxx = w.view() == util::word_view(u8"C++");
   bool b_first = vp_flag(); impl::Lexicon* first = b_first ? b : a; impl::Lexicon* second = b_first ? a : b;
   struct Got { const void *str, *id, *op, *lit, *lk, *lg, *cc, *ty; } g[2];
   int i = 0;
   for (impl::Lexicon* lx : { first, second }) {
      g[i].str = &lx->get_string(w.view()); g[i].id = &lx->get_identifier(w.view()); g[i].op = &lx->get_operator(w.view());
      g[i].lit = &lx->get_literal(lx->int_type(), w.view()); g[i].lk = &lx->get_linkage(w.view()); g[i].lg = &lx->get_logogram(lx->get_string(w.view()));
      g[i].cc = &lx->get_calling_convention(w.view()); g[i].ty = &lx->get_as_type(lx->get_identifier(w.view()));
      ++i;
   }
   {  // compound types over a process-wide built-in operand, requested alternately on the two Lexicons: each Lexicon has its own node, and keeps it
      const void* mine[2][5]; impl::Lexicon* lxs[2] = { first, second };
      for (int round = 0; round < 2; ++round) for (int k = 0; k < 2; ++k) { impl::Lexicon& lx = *lxs[k];
         const void* now[5] = { &lx.get_reference(lx.int_type()), &lx.get_rvalue_reference(lx.int_type()), &lx.get_pointer(lx.int_type()), &lx.get_qualified(lx.const_qualifier(), lx.int_type()), &lx.get_array(lx.int_type(), lx.true_value()) };
         for (int j = 0; j < 5; ++j) { if (round == 0) mine[k][j] = now[j]; else vp_assert(mine[k][j] == now[j], 26); } }
      for (int j = 0; j < 5; ++j) vp_assert(mine[0][j] != mine[1][j], 27);
   }
   vp_assert((g[0].str == g[1].str) == (reserved || empty), 20);
   vp_assert((g[0].id == g[1].id) == reserved, 21);
   vp_assert(g[0].op != g[1].op && g[0].lit != g[1].lit && g[0].cc != g[1].cc, 22);           // never process-wide
   vp_assert((g[0].lk == g[1].lk) == (isC || isCxx), 23);
   vp_assert((g[0].lg == g[1].lg) == (reserved || empty), 24);
   // a type obtained from the identifier is common exactly when it is one of the process-wide built-in type constants (builtin.def)
   bool builtin_type = false; for (auto& t : impl::builtins) if (static_cast<const void*>(static_cast<const ipr::As_type*>(&t)) == g[0].ty) builtin_type = true;
   vp_assert((g[0].ty == g[1].ty) == builtin_type, 25);
   vp_done();
}
