// C05 — node identity is stable: nodes never move, never silently change, never alias.
// Every re-read below is a checked access in the engine, so storage that was relocated or released shows up as a use-after-free
// at the first re-read (natively: AddressSanitizer on replay).
#include "zoo.h"
#include <type_traits>
#ifndef C05_REPS
#define C05_REPS 9
#endif
#ifndef C05_FULL_ROUND
#define C05_FULL_ROUND 0
#endif
namespace {
   template<class T> struct Peek : ipr::Sequence<T> { using ipr::Sequence<T>::get; };
   template<class T> const T& at(const ipr::Sequence<T>& s, std::size_t i) { return (s.*&Peek<T>::get)(i); }
   template<class T> struct is_optional : std::false_type { };
   template<class T> struct is_optional<ipr::Optional<T>> : std::true_type { };
   template<class T> std::true_type is_seq_f(const ipr::Sequence<T>*);
   std::false_type is_seq_f(...);
   template<class T> constexpr bool is_seq = decltype(is_seq_f(static_cast<const std::remove_reference_t<T>*>(nullptr)))::value;

   // everything observable through a node: one slot per accessor
   struct Slot { uint64_t kind; uint64_t v[4]; };          // kind 0 scalar/address, 1 sequence (size, first three element addresses), 2 refused
   struct Fingerprint {
      Slot s[40]; int n = 0;
      void scalar(uint64_t x) { if (n < 40) s[n++] = { 0, { x, 0, 0, 0 } }; }
      void refused() { if (n < 40) s[n++] = { 2, { 0, 0, 0, 0 } }; }
      template<class T> void seq(const ipr::Sequence<T>& q) {
         Slot sl { 1, { q.size(), 0, 0, 0 } };
         for (std::size_t i = 0; i < q.size() && i < 3; ++i) sl.v[1 + i] = (uint64_t)(uintptr_t)&at(q, i);
         if (n < 40) s[n++] = sl;
      }
   };
   // later == earlier, except that a sequence may have gained members at its end
   bool unchanged(const Fingerprint& a, const Fingerprint& b) {
      if (a.n != b.n) return false;
      bool ok = true;
      for (int i = 0; i < a.n; ++i) {
         if (a.s[i].kind != b.s[i].kind) { ok = false; continue; }
         if (a.s[i].kind == 1) { if (b.s[i].v[0] < a.s[i].v[0]) ok = false; for (uint64_t k = 0; k < a.s[i].v[0] && k < 3; ++k) if (a.s[i].v[1 + k] != b.s[i].v[1 + k]) ok = false; }
         else if (a.s[i].v[0] != b.s[i].v[0]) ok = false;
      }
      return ok;
   }
   template<class R> void fold(Fingerprint& f, R&& r) {
      using T = std::remove_cvref_t<R>;
      if constexpr (is_optional<T>::value) f.scalar(r.is_valid() ? (uint64_t)(uintptr_t)&r.get() : 0);
      else if constexpr (is_seq<T>) f.seq(r);
      else if constexpr (std::is_same_v<T, util::word_view>) { uint64_t h = r.size(); for (std::size_t i = 0; i < r.size() && i < 6; ++i) h = h * 257 + r[i]; f.scalar(h); }
      else if constexpr (std::is_enum_v<T>) f.scalar((uint64_t)r);
      else if constexpr (std::is_integral_v<T>) f.scalar((uint64_t)r);
      else if constexpr (std::is_class_v<T>) f.scalar((uint64_t)(uintptr_t)&r);
      else f.scalar(0);
   }
#define VP_FP(name) if constexpr (requires { n.name(); }) { try { fold(f, n.name()); } catch (const std::logic_error&) { f.refused(); } }
   template<class I> void fingerprint(const void* p, Fingerprint& f) {
      const I& n = *static_cast<const I*>(p);
      if constexpr (std::is_base_of_v<ipr::Node, I>) f.scalar((uint64_t)n.category);
      VP_FP(operand) VP_FP(first) VP_FP(second) VP_FP(third) VP_FP(type) VP_FP(implementation) VP_FP(name) VP_FP(transfer) VP_FP(characters) VP_FP(enclosing) VP_FP(owner) VP_FP(body) VP_FP(bindings)
      VP_FP(global) VP_FP(elements) VP_FP(region) VP_FP(members) VP_FP(bases) VP_FP(kind) VP_FP(base) VP_FP(mode) VP_FP(parameters) VP_FP(result) VP_FP(delimiters) VP_FP(resolution) VP_FP(operation)
      VP_FP(pattern) VP_FP(instance) VP_FP(level) VP_FP(phases) VP_FP(expression) VP_FP(designators) VP_FP(nominated_scope) VP_FP(handlers) VP_FP(initializer) VP_FP(condition) VP_FP(increment)
      VP_FP(variable) VP_FP(sequence) VP_FP(from) VP_FP(iteration) VP_FP(home_region) VP_FP(master) VP_FP(decl_set) VP_FP(mapping) VP_FP(position) VP_FP(precision) VP_FP(specifiers) VP_FP(qualifiers)
      VP_FP(concept_name) VP_FP(type_name) VP_FP(flavor) VP_FP(species) VP_FP(target) VP_FP(subobject) VP_FP(index) VP_FP(token) VP_FP(lexeme) VP_FP(spelling) VP_FP(value) VP_FP(parent_module) VP_FP(global_namespace)
   }
#undef VP_FP
   struct Tracker {
      struct Rec { const void* p; void (*fp)(const void*, Fingerprint&); Fingerprint before; bool is_node; };
      Rec rec[12]; int n = 0; bool gen = false;
      void generative() { gen = true; }
      template<class I> void node(const I& x) {
         if (n < 12) { Rec& r = rec[n++]; r.p = &x; r.fp = &fingerprint<I>; r.is_node = std::is_base_of_v<ipr::Node, I>; }
      }
      void operands(bool) { }
      template<class N> void typed(const N&, const ipr::Type*) { }
      void snapshot() { for (int i = 0; i < n; ++i) { rec[i].before.n = 0; rec[i].fp(rec[i].p, rec[i].before); } }      // taken once the client (the zoo case) has finished setting links
      void recheck(int id) { for (int i = 0; i < n; ++i) { Fingerprint now; rec[i].fp(rec[i].p, now); vp_assert(unchanged(rec[i].before, now), id); } }
   };
   struct First_node {
      const void* first = nullptr; bool gen = false;
      void generative() { gen = true; }
      template<class I> void node(const I& x) { if (!first) first = &x; }
      void operands(bool) { }
      template<class N> void typed(const N&, const ipr::Type*) { }
   };
}
// a node of a symbolically chosen factory is tracked while the same factory (same store) is used C05_REPS more times
// (past three capacity doublings of any growing store) and, in the thorough tier, every other factory once
extern "C" void h_after_growth(void) {
   unsigned total = zoo::count();
   zoo::World* w = new zoo::World;
   unsigned which = vp_pick(total);
   vp_observe(1, which);
   Tracker t;
   zoo::build(*w, which, t);
   vp_assert(t.n >= 1, 1);
   t.snapshot();
   t.recheck(2);                                              // re-reading immediately gives the same observation (no hidden state)
   w->concrete = true;
   const void* seen[C05_REPS + 1]; seen[0] = t.rec[0].p;
   for (int r = 1; r <= C05_REPS; ++r) {
      First_node f; zoo::build(*w, which, f); seen[r] = f.first;
      t.recheck(3);                                           // address and everything observable through it unchanged after every later step
      if (f.gen) for (int q = 0; q < r; ++q) vp_assert(seen[q] != seen[r], 4);      // generative constructors: distinct from every other live node
   }
#if C05_FULL_ROUND
   for (unsigned k = 0; k < total; ++k) { First_node f; zoo::build(*w, k, f); }
   t.recheck(5);
#endif
   vp_done();
}
// explicit member additions: the first members of a growing container are re-observed after every later addition
extern "C" void h_member_growth(void) {
   zoo::World* w = new zoo::World; auto& lx = w->lx;
   unsigned kind = vp_pick(10);
   const ipr::Name* nm[10]; char8_t buf[2] = { u8'a', 0 };
   for (int i = 0; i < 10; ++i) { buf[0] = char8_t(u8'a' + i); nm[i] = &lx.get_identifier(util::word_view(buf, 1)); }
   impl::Enum* e = lx.make_enum(*w->reg, ipr::Enum::Kind::Scoped); impl::Mapping* m = lx.make_mapping(*w->reg, Mapping_level{ 1 }); impl::Class* c = lx.make_class(*w->reg);
   impl::Block* b = lx.make_block(*w->reg); impl::Module* mod = new impl::Module(lx); impl::Namespace* ns = lx.make_namespace(*w->reg); impl::Expr_list* xl = lx.make_expr_list();
   Tracker t; const void* addr[10];
   for (int i = 0; i < 10; ++i) {
      switch (kind) {
      case 0: { const ipr::Enumerator& x = *e->add_member(*nm[i]); addr[i] = &x; if (i < 2) t.node<ipr::Enumerator>(x); if (i == 0) t.node<ipr::Enum>(*e); break; }            // deque
      case 1: { const ipr::Parameter& x = *m->param(*nm[i], *w->T[i % 3]); addr[i] = &x; if (i < 2) t.node<ipr::Parameter>(x); if (i == 0) t.node<ipr::Parameter_list>(m->parameters()); break; }
      case 2: { const ipr::Base_type& x = *c->declare_base(*w->T[i % 3]); addr[i] = &x; if (i < 2) t.node<ipr::Base_type>(x); if (i == 0) t.node<ipr::Class>(*c); break; }
      case 3: { const ipr::Handler& x = *b->new_handler(*nm[i], *w->T[i % 3]); addr[i] = &x; if (i < 2) { t.node<ipr::Handler>(x); t.node<ipr::EH_parameter>(x.exception()); } if (i == 0) t.node<ipr::Block>(*b); break; }
      case 4: { const ipr::Module_unit& x = *mod->make_unit(); addr[i] = &x; if (i < 2) { t.node<ipr::Module_unit>(x); t.node<ipr::Namespace>(x.global_namespace()); } break; }
      case 5: { impl::Region* x = ns->body.make_subregion(); addr[i] = x; if (i < 2) t.node<ipr::Region>(*x); break; }
      case 6: { const ipr::Var& x = *ns->declare_var(*nm[i % 4], *w->T[i % 3]); addr[i] = &x; if (i < 2) t.node<ipr::Var>(x); if (i == 0) { t.node<ipr::Namespace>(*ns); t.node<ipr::Scope>(ns->body.scope); } break; }   // decl_sequence, overload tree, redeclarations
      case 7: { const ipr::Expr& x = *lx.make_id_expr(*nm[i]); xl->push_back(&x); addr[i] = &x; if (i < 2) t.node<ipr::Expr>(x); if (i == 0) t.node<ipr::Expr_list>(*xl); break; }
      case 8: { buf[0] = char8_t(u8'A' + i); const ipr::String& x = lx.get_string(util::word_view(buf, 1)); addr[i] = &x; if (i < 2) t.node<ipr::String>(x); break; }                       // string pool
      case 9: { impl::Warehouse<ipr::Type>* wh = new impl::Warehouse<ipr::Type>; for (int k = 0; k <= i % 3; ++k) wh->push_back(*w->T[(i + k) % 3]); wh->push_back(lx.get_pointer(*w->T[i % 3]));
                const ipr::Product& x = lx.get_product(*wh); delete wh; addr[i] = &x; if (i < 2) t.node<ipr::Product>(x); break; }                                                       // contents copied before the warehouse dies
      }
      if (i == 1) t.snapshot();
      if (i >= 1) t.recheck(10);
      if (kind != 9 && kind != 6) for (int q = 0; q < i; ++q) vp_assert(addr[q] != addr[i], 11);
   }
   vp_done();
}
