// C05 — node identity is stable: nodes never move, never silently change, never alias.
// Every re-read below is a checked access in the engine, so storage that was relocated or released shows up as a use-after-free
// at the first re-read (natively: AddressSanitizer on replay).
#include "fingerprint.h"
#ifndef C05_REPS
#define C05_REPS 9
#endif
#ifndef C05_FULL_ROUND
#define C05_FULL_ROUND 0
#endif
// a node of a symbolically chosen factory is tracked while the same factory (same store) is used C05_REPS more times
// (past three capacity doublings of any growing store) and, in the thorough tier, every other factory once
extern "C" void h_after_growth(void) {
   unsigned total = zoo::count();
   zoo::World* w = new zoo::World;
   unsigned which = vp_pick(total);
   vp_observe(1, which);
   Tracker t;
   zoo::build(*w, which, t);
   vp_assert(t.n >= 1, 1);
   t.snapshot();
   t.recheck(2);                                              // re-reading immediately gives the same observation (no hidden state)
   w->concrete = true;
   const void* seen[C05_REPS + 1]; seen[0] = t.rec[0].p;
   for (int r = 1; r <= C05_REPS; ++r) {
      First_node f; zoo::build(*w, which, f); seen[r] = f.first;
      t.recheck(3);                                           // address and everything observable through it unchanged after every later step
      if (f.gen) for (int q = 0; q < r; ++q) vp_assert(seen[q] != seen[r], 4);      // generative constructors: distinct from every other live node
   }
#if C05_FULL_ROUND
   for (unsigned k = 0; k < total; ++k) { First_node f; w->reg = w->unit.global_region()->make_subregion(); zoo::build(*w, k, f); }
   t.recheck(5);
#endif
   vp_done();
}
// every factory after every factory: a node of a symbolically chosen factory (operands: a symbolically chosen one of C05_PHASES deterministic
// choices) is tracked while every factory of the zoo is used once with operands drawn from the same pools, twice over with shifted
// operand choices, so that later requests that share a table, a name or a type with the tracked node occur
#ifndef C05_PHASES
#define C05_PHASES 2
#endif
extern "C" void h_after_others(void) {
   unsigned total = zoo::count();
   zoo::World* w = new zoo::World; w->concrete = true;
   unsigned which = vp_pick(total); w->tick = vp_pick(C05_PHASES);
   vp_observe(1, which);
   Tracker t;
   zoo::build(*w, which, t);
   t.snapshot();
   for (int round = 0; round < 2; ++round) {
      w->tick = round;
      for (unsigned k = 0; k < total; ++k) { First_node f; w->reg = w->unit.global_region()->make_subregion(); zoo::build(*w, k, f); }      // each case declares into a scope of its own (the cases reuse names and types for declarations of different kinds)
      t.recheck(6);
   }
   vp_done();
}
// explicit member additions: the first members of a growing container are re-observed after every later addition
extern "C" void h_member_growth(void) {
   zoo::World* w = new zoo::World; auto& lx = w->lx;
   unsigned kind = vp_pick(12);
   const ipr::Name* nm[10]; char8_t buf[2] = { u8'a', 0 };
   for (int i = 0; i < 10; ++i) { buf[0] = char8_t(u8'a' + i); nm[i] = &lx.get_identifier(util::word_view(buf, 1)); }
   impl::Enum* e = lx.make_enum(*w->reg, ipr::Enum::Kind::Scoped); impl::Mapping* m = lx.make_mapping(*w->reg, Mapping_level{ 1 }); impl::Class* c = lx.make_class(*w->reg);
   impl::Block* b = lx.make_block(*w->reg); impl::Module* mod = new impl::Module(lx); impl::Namespace* ns = lx.make_namespace(*w->reg); impl::Expr_list* xl = lx.make_expr_list();
   Tracker t; const void* addr[10];
   for (int i = 0; i < 10; ++i) {
      switch (kind) {
      case 0: { const ipr::Enumerator& x = *e->add_member(*nm[i]); addr[i] = &x; if (i < 2) t.node<ipr::Enumerator>(x); if (i == 0) t.node<ipr::Enum>(*e); break; }            // deque
      case 1: { const ipr::Parameter& x = *m->param(*nm[i], *w->T[i % 3]); addr[i] = &x; if (i < 2) t.node<ipr::Parameter>(x); if (i == 0) t.node<ipr::Parameter_list>(m->parameters()); break; }
      case 2: { const ipr::Base_type& x = *c->declare_base(*w->T[i % 3]); addr[i] = &x; if (i < 2) t.node<ipr::Base_type>(x); if (i == 0) t.node<ipr::Class>(*c); break; }
      case 3: { const ipr::Handler& x = *b->new_handler(*nm[i], *w->T[i % 3]); addr[i] = &x; if (i < 2) { t.node<ipr::Handler>(x); t.node<ipr::EH_parameter>(x.exception()); } if (i == 0) t.node<ipr::Block>(*b); break; }
      case 4: { const ipr::Module_unit& x = *mod->make_unit(); addr[i] = &x; if (i < 2) { t.node<ipr::Module_unit>(x); t.node<ipr::Namespace>(x.global_namespace()); } break; }
      case 5: { impl::Region* x = ns->body.make_subregion(); addr[i] = x; if (i < 2) t.node<ipr::Region>(*x); break; }
      case 6: { const ipr::Var& x = *ns->declare_var(*nm[i % 4], *w->T[i % 3]); addr[i] = &x; if (i < 2) t.node<ipr::Var>(x); if (i == 0) { t.node<ipr::Namespace>(*ns); t.node<ipr::Scope>(ns->body.scope); } break; }   // decl_sequence, overload tree, redeclarations
      case 7: { const ipr::Expr& x = *lx.make_id_expr(*nm[i]); xl->push_back(&x); addr[i] = &x; if (i < 2) t.node<ipr::Expr>(x); if (i == 0) t.node<ipr::Expr_list>(*xl); break; }
      case 8: { buf[0] = char8_t(u8'A' + i); const ipr::String& x = lx.get_string(util::word_view(buf, 1)); addr[i] = &x; if (i < 2) t.node<ipr::String>(x); break; }                       // string pool
      case 10: { static cxx_form::impl::Designated_list_provision* dl = nullptr; if (i == 0) dl = w->reg->make_designated_provision();        // designated-initializer list (elements are plain records, not nodes)
                 auto& fd = *w->reg->make_field_designator(*static_cast<const ipr::Identifier*>(nm[i])); auto& pv = *w->reg->make_parenthesized_provision(*w->E[i % 3]);
                 auto* el = dl->seq.push_back(fd, pv); addr[i] = el; const ipr::cxx_form::Designated_list_provision& cd = *dl;
                 for (int q = 0; q <= i; ++q) vp_assert(&*cd.elements().position(q) == addr[q] && &cd.elements().position(q)->subobject() != nullptr, 12);      // every earlier element is where it was
                 break; }
      case 11: { static impl::Block* blk = nullptr; if (i == 0) blk = lx.make_block(*w->reg);                                               // statements of a block body
                 const ipr::Expr& st = *lx.make_expr_stmt(*w->E[i % 3]); blk->add_stmt(st); addr[i] = &st; const ipr::Block& cb = *blk;
                 for (int q = 0; q <= i; ++q) vp_assert(&*cb.body().position(q) == addr[q], 13);
                 break; }
      case 9: { impl::Warehouse<ipr::Type>* wh = new impl::Warehouse<ipr::Type>; for (int k = 0; k <= i % 3; ++k) wh->push_back(*w->T[(i + k) % 3]); wh->push_back(lx.get_pointer(*w->T[i % 3]));
                const ipr::Product& x = lx.get_product(*wh); delete wh; addr[i] = &x; if (i < 2) t.node<ipr::Product>(x); break; }                                                       // contents copied before the warehouse dies
      }
      if (i == 1) t.snapshot();
      if (i >= 1 && kind < 10) t.recheck(10);
      if (kind != 9 && kind != 6) for (int q = 0; q < i; ++q) vp_assert(addr[q] != addr[i], 11);
   }
   vp_done();
}
// interned words across a pool roll-over: the cursor of the Lexicon's string arena is placed j granules before the end of its 1 MiB pool
// (needs -fno-access-control), then words of symbolic lengths are interned; the Strings and Identifiers obtained earlier are re-observed
// (spelling hashed byte by byte) after every later interning
extern "C" void h_string_rollover(void) {
   zoo::World* w = new zoo::World; auto& lx = w->lx;
   static const unsigned lens[] = { 1, 7, 8, 9, 16, 24, 25 };
   static const char8_t text[] = u8"abcdefghijklmnopqrstuvwxyzABCDEFGHIJKLMNOPQRSTUVWXYZ";
   Tracker t; const ipr::String* s[4]; unsigned len[4];
   len[0] = lens[vp_pick(7)];
   s[0] = &lx.get_string(util::word_view(text, len[0])); t.node<ipr::String>(*s[0]); t.node<ipr::Identifier>(lx.get_identifier(*s[0]));
   unsigned j = vp_pick(5);
   auto& ar = lx.strings.strings;
   ar.next_header = ar.mem->storage + (util::string::arena::bufsz - j);
   for (int i = 1; i < 4; ++i) {
      len[i] = lens[vp_pick(7)];
      s[i] = &lx.get_string(util::word_view(text + 3 * i, len[i]));
      if (i == 1) { t.node<ipr::String>(*s[1]); t.node<ipr::Identifier>(lx.get_identifier(*s[1])); t.snapshot(); }
      else t.recheck(20);
      for (int q = 0; q <= i; ++q) { bool ok = s[q]->characters().size() == len[q]; for (unsigned k = 0; ok && k < len[q]; ++k) ok = s[q]->characters()[k] == text[3 * q + k]; vp_assert(ok, 21); }
   }
   vp_done();
}
// products and sums share their interned element sequences: a product and a sum are built from warehouses with symbolically picked
// elements (lengths 0..3, any address order, repetitions allowed), then further products / sums are requested (same or other content,
// through a warehouse or a caller-owned sequence); the elements of every earlier node are re-read one by one after every later request
extern "C" void h_sequence_sharing(void) {
   zoo::World* w = new zoo::World; auto& lx = w->lx;
   const ipr::Type* pool[3] = { w->T[0], w->T[1], w->T[2] };
   struct Rec { const ipr::Sequence<ipr::Type>* seq; unsigned n; const ipr::Type* el[3]; } rec[4]; int nrec = 0;
   auto recheck = [&](int id) { for (int r = 0; r < nrec; ++r) { vp_assert(rec[r].seq->size() == rec[r].n, id); for (unsigned k = 0; k < rec[r].n && k < rec[r].seq->size(); ++k) vp_assert(&at(*rec[r].seq, k) == rec[r].el[k], id + 1); } };
   for (int step = 0; step < 3; ++step) {
      unsigned n = step == 0 ? 2 + vp_pick(2) : rec[0].n; bool same_as_first = step == 2 || (step == 1 && vp_flag());       // the last request has exactly the content of the first
      const ipr::Type* el[3];
      for (unsigned k = 0; k < n; ++k) el[k] = same_as_first ? rec[0].el[k] : pool[vp_pick(3)];
      unsigned how = step == 0 ? 0 : vp_pick(4);        // product / sum, through a warehouse / a caller-owned sequence
      const ipr::Sequence<ipr::Type>* seq;
      if (how < 2) { impl::Warehouse<ipr::Type>* wh = new impl::Warehouse<ipr::Type>; for (unsigned k = 0; k < n; ++k) wh->push_back(*el[k]);
                     seq = how == 0 ? &lx.get_product(*wh).elements() : &lx.get_sum(*wh).elements(); delete wh; }
      else { auto* rs = new impl::ref_sequence<ipr::Type>; for (unsigned k = 0; k < n; ++k) rs->push_back(el[k]);
             seq = how == 2 ? &lx.get_product(*rs).elements() : &lx.get_sum(*rs).elements(); }
      rec[nrec].seq = seq; rec[nrec].n = n; for (unsigned k = 0; k < n; ++k) rec[nrec].el[k] = el[k]; ++nrec;
      recheck(30);
   }
   vp_done();
}
