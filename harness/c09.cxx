// C09 — every node has the type its kind prescribes; sequence types track their members.
#include "zoo.h"
#ifndef C09_K
#define C09_K 3
#endif
namespace {
   struct Type_check {
      void generative() { }
      int checks = 0;
      template<class I> void node(const I&) { }
      void operands(bool) { }
      template<class N> void typed(const N& n, const ipr::Type* expected) {
         ++checks;
         const ipr::Type* got = nullptr;
         int out = vp_outcome([&] { got = &n.type(); });
         if (expected) vp_assert(out == 0 && got == expected, 1);        // fixed by kind, borrowed from the designated sub-node, or given at construction
         else vp_assert(out == 1, 2);                                   // nothing given: refused with a logic_error (never a stale or foreign type)
      }
   };
   template<class T> struct Peek : ipr::Sequence<T> { using ipr::Sequence<T>::get; };
   template<class T> const T& at(const ipr::Sequence<T>& s, std::size_t i) { return (s.*&Peek<T>::get)(i); }
   void check_product(const ipr::Type& t, const ipr::Type* const* el, unsigned n, int id) {
      auto p = util::view<ipr::Product>(t);
      vp_assert(p != nullptr && p->size() == n, id);
      if (p && p->size() == n) for (unsigned i = 0; i < n; ++i) vp_assert(&(*p)[i] == el[i], id + 1);
   }
}
extern "C" void h_kinds(void) {
   unsigned total = zoo::count();
   zoo::World* w = new zoo::World;
   unsigned which = vp_pick(total);
   vp_observe(1, which);
   Type_check v;
   zoo::build(*w, which, v);
   vp_done();
}
// the type of a scope, parameter list or expression list is the product of its current elements' types, also after additions
extern "C" void h_sequence_types(void) {
   zoo::World* w = new zoo::World; auto& lx = w->lx;
   impl::Namespace* ns = lx.make_namespace(*w->reg); impl::Mapping* m = lx.make_mapping(*w->reg, Mapping_level{ 1 }); impl::Expr_list* xl = lx.make_expr_list();
   const ipr::Type* st[C09_K]; const ipr::Type* pt[C09_K]; const ipr::Type* xt[C09_K];
   const ipr::Scope& sc = ns->body.scope; const ipr::Parameter_list& pl = m->parameters(); const ipr::Expr_list& cxl = *xl;
   check_product(sc.type(), st, 0, 10); check_product(pl.type(), pt, 0, 12); check_product(cxl.type(), xt, 0, 14);
   const ipr::Name* names[3] = { w->N[0], w->N[1], &lx.get_identifier(u8"third") };
   for (unsigned k = 0; k < C09_K; ++k) {
      // one symbolic type pick per step drives the three sequences (they are independent of each other, so their picks need not be multiplied)
      const ipr::Type& ty = w->t(); st[k] = &ty; pt[k] = &ty;
      ns->declare_var(*names[k % 3], *st[k]); m->param(*names[k % 3], *pt[k]);
      const ipr::Expr& x = *lx.make_id_expr(w->n(), ty); xt[k] = &x.type(); xl->push_back(&x);
      check_product(sc.type(), st, k + 1, 10); check_product(pl.type(), pt, k + 1, 12); check_product(cxl.type(), xt, k + 1, 14);
      vp_assert(&pl.type().type() == &lx.typename_type() && &sc.type().type() == &lx.typename_type(), 16);
   }
   vp_done();
}
// declarations report exactly the type they were given, also when the same name was already declared with a type that differs only
// slightly: function types that differ in the exception specification or in the transfer only, a type and its cv-qualified variant
extern "C" void h_near_types(void) {
   zoo::World* w = new zoo::World; auto& lx = w->lx;
   impl::Warehouse<ipr::Type> wh; wh.push_back(lx.int_type());
   const ipr::Product& P = lx.get_product(wh);
   const ipr::Function* F[4] = { &lx.get_function(P, lx.bool_type()), &lx.get_function(P, lx.bool_type(), lx.true_value()),
      &lx.get_function(P, lx.bool_type(), lx.get_transfer_from_linkage(lx.c_linkage())), &lx.get_function(P, lx.bool_type(), lx.true_value(), lx.get_transfer_from_linkage(lx.c_linkage())) };
   const ipr::Type* V[3] = { &lx.int_type(), &lx.get_qualified(lx.const_qualifier(), lx.int_type()), &lx.get_qualified(lx.const_qualifier() | lx.volatile_qualifier(), lx.int_type()) };
   const ipr::Name& nm = *w->N[0];
   bool functions = vp_flag();
   const ipr::Decl* d[3]; const ipr::Type* given[3];
   for (int k = 0; k < 3; ++k) {
      if (functions) { unsigned i = vp_pick(4); given[k] = F[i]; d[k] = w->reg->declare_fun(nm, *F[i]); }
      else { unsigned i = vp_pick(3); given[k] = V[i]; d[k] = w->reg->declare_var(nm, *V[i]); }
      for (int j = 0; j <= k; ++j) {
         vp_assert(&d[j]->type() == given[j], 20);                                                    // exactly the type given at construction
         vp_assert(&lx.make_id_expr(*d[j])->type() == given[j], 21);                                  // and an id-expression of it borrows that type
      }
      auto prod = util::view<ipr::Product>(w->reg->scope.type());
      vp_assert(prod != nullptr && prod->size() == (std::size_t)(k + 1) && &(*prod)[k] == given[k], 22);
   }
   vp_done();
}
