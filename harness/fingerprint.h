// Fingerprints of everything observable through a node, and a tracker that re-observes nodes later (shared by C05 and C20).
#ifndef VP_FINGERPRINT_H
#define VP_FINGERPRINT_H
#include "zoo.h"
#include <type_traits>
namespace {
   template<class T> struct Peek : ipr::Sequence<T> { using ipr::Sequence<T>::get; };
   template<class T> const T& at(const ipr::Sequence<T>& s, std::size_t i) { return (s.*&Peek<T>::get)(i); }
   template<class T> struct is_optional : std::false_type { };
   template<class T> struct is_optional<ipr::Optional<T>> : std::true_type { };
   template<class T> std::true_type is_seq_f(const ipr::Sequence<T>*);
   std::false_type is_seq_f(...);
   template<class T> constexpr bool is_seq = decltype(is_seq_f(static_cast<const std::remove_reference_t<T>*>(nullptr)))::value;

   // everything observable through a node: one slot per accessor
   struct Slot { uint64_t kind; uint64_t v[4]; };          // kind 0 scalar/address, 1 sequence (size, first three element addresses), 2 refused
   struct Fingerprint {
      Slot s[40]; int n = 0;
      void scalar(uint64_t x) { if (n < 40) s[n++] = { 0, { x, 0, 0, 0 } }; }
      void refused() { if (n < 40) s[n++] = { 2, { 0, 0, 0, 0 } }; }
      template<class T> void seq(const ipr::Sequence<T>& q) {
         Slot sl { 1, { q.size(), 0, 0, 0 } };
         for (std::size_t i = 0; i < q.size() && i < 3; ++i) sl.v[1 + i] = (uint64_t)(uintptr_t)&at(q, i);
         if (n < 40) s[n++] = sl;
      }
   };
   // later == earlier, except that a sequence may have gained members at its end
   bool unchanged(const Fingerprint& a, const Fingerprint& b) {
      if (a.n != b.n) return false;
      bool ok = true;
      for (int i = 0; i < a.n; ++i) {
         if (a.s[i].kind != b.s[i].kind) { ok = false; continue; }
         if (a.s[i].kind == 1) { if (b.s[i].v[0] < a.s[i].v[0]) ok = false; for (uint64_t k = 0; k < a.s[i].v[0] && k < 3; ++k) if (a.s[i].v[1 + k] != b.s[i].v[1 + k]) ok = false; }
         else if (a.s[i].v[0] != b.s[i].v[0]) ok = false;
      }
      return ok;
   }
   template<class R> void fold(Fingerprint& f, R&& r) {
      using T = std::remove_cvref_t<R>;
      if constexpr (is_optional<T>::value) f.scalar(r.is_valid() ? (uint64_t)(uintptr_t)&r.get() : 0);
      else if constexpr (is_seq<T>) f.seq(r);
      else if constexpr (std::is_same_v<T, util::word_view>) { uint64_t h = r.size(); for (std::size_t i = 0; i < r.size() && i < 6; ++i) h = h * 257 + r[i]; f.scalar(h); }
      else if constexpr (std::is_enum_v<T>) f.scalar((uint64_t)r);
      else if constexpr (std::is_integral_v<T>) f.scalar((uint64_t)r);
      else if constexpr (std::is_class_v<T>) f.scalar((uint64_t)(uintptr_t)&r);
      else f.scalar(0);
   }
#define VP_FP(name) if constexpr (requires { n.name(); }) { try { fold(f, n.name()); } catch (const std::logic_error&) { f.refused(); } }
   template<class I> void fingerprint(const void* p, Fingerprint& f) {
      const I& n = *static_cast<const I*>(p);
      if constexpr (std::is_base_of_v<ipr::Node, I>) f.scalar((uint64_t)n.category);
      VP_FP(operand) VP_FP(first) VP_FP(second) VP_FP(third) VP_FP(type) VP_FP(implementation) VP_FP(name) VP_FP(transfer) VP_FP(characters) VP_FP(enclosing) VP_FP(owner) VP_FP(body) VP_FP(bindings)
      VP_FP(global) VP_FP(elements) VP_FP(region) VP_FP(members) VP_FP(bases) VP_FP(kind) VP_FP(base) VP_FP(mode) VP_FP(parameters) VP_FP(result) VP_FP(delimiters) VP_FP(resolution) VP_FP(operation)
      VP_FP(pattern) VP_FP(instance) VP_FP(level) VP_FP(phases) VP_FP(expression) VP_FP(designators) VP_FP(nominated_scope) VP_FP(handlers) VP_FP(initializer) VP_FP(condition) VP_FP(increment)
      VP_FP(variable) VP_FP(sequence) VP_FP(from) VP_FP(iteration) VP_FP(home_region) VP_FP(master) VP_FP(decl_set) VP_FP(mapping) VP_FP(position) VP_FP(precision) VP_FP(specifiers) VP_FP(qualifiers)
      VP_FP(concept_name) VP_FP(type_name) VP_FP(flavor) VP_FP(species) VP_FP(target) VP_FP(subobject) VP_FP(index) VP_FP(token) VP_FP(lexeme) VP_FP(spelling) VP_FP(value) VP_FP(parent_module) VP_FP(global_namespace)
   }
#undef VP_FP
   struct Tracker {
      struct Rec { const void* p; void (*fp)(const void*, Fingerprint&); Fingerprint before; bool is_node; };
      Rec rec[12]; int n = 0; bool gen = false;
      void generative() { gen = true; }
      template<class I> void node(const I& x) {
         if (n < 12) { Rec& r = rec[n++]; r.p = &x; r.fp = &fingerprint<I>; r.is_node = std::is_base_of_v<ipr::Node, I>; }
      }
      void operands(bool) { }
      template<class N> void typed(const N&, const ipr::Type*) { }
      void snapshot() { for (int i = 0; i < n; ++i) { rec[i].before.n = 0; rec[i].fp(rec[i].p, rec[i].before); } }      // taken once the client (the zoo case) has finished setting links
      void recheck(int id) { for (int i = 0; i < n; ++i) { Fingerprint now; rec[i].fp(rec[i].p, now); vp_assert(unchanged(rec[i].before, now), id); } }
   };
   struct First_node {
      const void* first = nullptr; bool gen = false;
      void generative() { gen = true; }
      template<class I> void node(const I& x) { if (!first) first = &x; }
      void operands(bool) { }
      template<class N> void typed(const N&, const ipr::Type*) { }
   };
}
#endif
