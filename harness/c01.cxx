// C01 — types are unified: same constructor arguments give the same node, and only then.
#include "common.h"
#ifndef C01_K
#define C01_K 2
#endif
namespace {
   struct World {
      impl::Lexicon lx;
      impl::Translation_unit unit { lx };
      const ipr::Type* T[3];         // unqualified operand types, sorted by address
      const ipr::Expr* E[3];         // E[0] is the default exception specification (false)
      const ipr::Product* P[2];
      const ipr::Sum* S[2];
      const ipr::Linkage* L[3];      // L[0] = C++ (natural)
      const ipr::Calling_convention* C[2];   // C[0] = natural (empty)
      World() {
         T[0] = &lx.int_type(); T[1] = lx.make_class(*unit.global_region()); T[2] = &lx.get_pointer(lx.bool_type());
         vp_sort_by_address(T, 3);
         E[0] = &lx.false_value(); E[1] = &lx.true_value(); E[2] = lx.make_literal(lx.int_type(), u8"3");
         vp_sort_by_address(E + 1, 2);
         impl::Warehouse<ipr::Type> w1, w2; w1.push_back(lx.int_type()); w2.push_back(lx.int_type()); w2.push_back(lx.bool_type());
         P[0] = &lx.get_product(w1); P[1] = &lx.get_product(w2); vp_sort_by_address(P, 2);
         S[0] = &lx.get_sum(w1); S[1] = &lx.get_sum(w2); vp_sort_by_address(S, 2);
         L[0] = &lx.cxx_linkage(); L[1] = &lx.c_linkage(); L[2] = &lx.get_linkage(u8"Zed");
         C[0] = &lx.get_calling_convention(u8""); C[1] = &lx.get_calling_convention(u8"fastcall");
      }
   };
   enum Ctor { KPointer, KReference, KRvalue_reference, KArray, KQualified, KFunction, KProduct, KSum, KForall, KPtr_to_member, KTor, KAs_type, KTransfer, NCTOR };
   struct Req { unsigned c; unsigned a[4]; const void* node; };

   // Issue one symbolically chosen request to constructor c.  a[] receives the canonical arguments.
   const void* request(World& w, Req& r, unsigned c, bool lite = false) {
      auto& lx = w.lx; r.c = c; r.a[0] = r.a[1] = r.a[2] = r.a[3] = 0;
      switch (c) {
      case KPointer: r.a[0] = vp_pick(3); return &lx.get_pointer(*w.T[r.a[0]]);
      case KReference: r.a[0] = vp_pick(3); return &lx.get_reference(*w.T[r.a[0]]);
      case KRvalue_reference: r.a[0] = vp_pick(3); return &lx.get_rvalue_reference(*w.T[r.a[0]]);
      case KArray: r.a[0] = vp_pick(3); r.a[1] = vp_pick(3); return &lx.get_array(*w.T[r.a[0]], *w.E[r.a[1]]);
      case KQualified: r.a[0] = 1 + vp_pick(3); r.a[1] = vp_pick(3); return &lx.get_qualified(ipr::Qualifiers(r.a[0]), *w.T[r.a[1]]);
      case KFunction: {
         r.a[0] = vp_pick(2); r.a[1] = vp_pick(lite ? 2 : 3); r.a[2] = vp_pick(2); unsigned l = vp_pick(2), cc = lite ? 0 : vp_pick(2); r.a[3] = l * 2 + cc;
         auto& xf = lx.get_transfer(*w.L[l], *w.C[cc]);
         unsigned form = vp_pick(2);
         // a request that omits the default non-throwing specification / the natural transfer is the same request as one that spells it out
         if (r.a[2] == 0 && r.a[3] == 0 && form) return &lx.get_function(*w.P[r.a[0]], *w.T[r.a[1]]);
         if (r.a[2] == 0 && form) return &lx.get_function(*w.P[r.a[0]], *w.T[r.a[1]], xf);
         if (r.a[3] == 0 && form) return &lx.get_function(*w.P[r.a[0]], *w.T[r.a[1]], *w.E[r.a[2]]);
         return &lx.get_function(*w.P[r.a[0]], *w.T[r.a[1]], *w.E[r.a[2]], xf); }
      case KProduct: case KSum: {
         unsigned n = vp_pick(3); r.a[0] = n; impl::Warehouse<ipr::Type> wh;
         for (unsigned i = 0; i < n; ++i) { unsigned k = vp_pick(3); r.a[1 + i] = k; wh.push_back(*w.T[k]); }
         return c == KProduct ? static_cast<const void*>(&lx.get_product(wh)) : static_cast<const void*>(&lx.get_sum(wh)); }
      case KForall: r.a[0] = vp_pick(2); r.a[1] = vp_pick(3); return &lx.get_forall(*w.P[r.a[0]], *w.T[r.a[1]]);
      case KPtr_to_member: r.a[0] = vp_pick(3); r.a[1] = vp_pick(3); return &lx.get_ptr_to_member(*w.T[r.a[0]], *w.T[r.a[1]]);
      case KTor: r.a[0] = vp_pick(2); r.a[1] = vp_pick(2); return &lx.get_tor(*w.P[r.a[0]], *w.S[r.a[1]]);
      case KAs_type: {
         r.a[0] = vp_pick(lite ? 2 : 3); unsigned l = vp_pick(2), cc = lite ? 0 : vp_pick(2); r.a[1] = l * 2 + cc; unsigned form = vp_pick(2);
         if (r.a[1] == 0 && form) return &lx.get_as_type(*w.E[r.a[0]]);
         return &lx.get_as_type(*w.E[r.a[0]], lx.get_transfer(*w.L[l], *w.C[cc])); }
      case KTransfer: {
         r.a[0] = vp_pick(3); r.a[1] = vp_pick(2); unsigned form = vp_pick(2);
         if (r.a[1] == 0 && form) return &lx.get_transfer_from_linkage(*w.L[r.a[0]]);
         if (r.a[0] == 0 && form) return &lx.get_transfer_from_convention(*w.C[r.a[1]]);
         return &lx.get_transfer(*w.L[r.a[0]], *w.C[r.a[1]]); }
      }
      return nullptr;
   }
   inline bool same_args(const Req& x, const Req& y) {
      return x.c == y.c && x.a[0] == y.a[0] && x.a[1] == y.a[1] && x.a[2] == y.a[2] && x.a[3] == y.a[3];
   }
}
// (1) two requests to one constructor (the tree shapes themselves are C08's subject)
extern "C" void h_same_table(void) {
   World* w = new World; Req r[2];
   unsigned c = vp_pick(NCTOR);
   for (int i = 0; i < 2; ++i) r[i].node = request(*w, r[i], c);
   for (int i = 0; i < 2; ++i) for (int j = i + 1; j < 2; ++j) {
      if (c == KTransfer) {        // transfers are values: the natural transfer may be represented by several nodes, compared with ==
         auto& x = *static_cast<const ipr::Transfer*>(r[i].node); auto& y = *static_cast<const ipr::Transfer*>(r[j].node);
         vp_assert((x == y) == same_args(r[i], r[j]), 3);
         if (same_args(r[i], r[j]) && !(r[i].a[0] == 0 || r[i].a[1] == 0)) vp_assert(r[i].node == r[j].node, 4);
      }
      else vp_assert((r[i].node == r[j].node) == same_args(r[i], r[j]), 1);
   }
   vp_done();
}
// (2) histories of C01_K+1 arbitrary requests (any constructor at every step): "no matter what was built in between"
extern "C" void h_history(void) {
   World* w = new World; Req r[C01_K + 1];
   for (int i = 0; i <= C01_K; ++i) { unsigned c = vp_pick(NCTOR - 1); r[i].node = request(*w, r[i], c, true); }     // Transfer excluded here (see h_same_table)
   for (int i = 0; i <= C01_K; ++i) for (int j = i + 1; j <= C01_K; ++j)
      vp_assert((r[i].node == r[j].node) == same_args(r[i], r[j]), 2);
   vp_done();
}
// (3) normal forms with symbolic linkage / convention spellings
extern "C" void h_normal_forms(void) {
   World* w = new World; auto& lx = w->lx;
   Word<3> wl; wl.make();
   struct { util::word_view view() const { return len ? util::word_view(u8"cc") : util::word_view(u8""); } unsigned len; } wc { vp_pick(2) * 2 };
   bool isCxx = wl.view() == util::word_view(u8"C++"), natural = isCxx && wc.len == 0;
   auto& xf = lx.get_transfer(lx.get_linkage(wl.view()), lx.get_calling_convention(wc.view()));
   auto& f0 = lx.get_function(*w->P[0], *w->T[0]);
   auto& f1 = lx.get_function(*w->P[0], *w->T[0], lx.false_value());
   auto& f2 = lx.get_function(*w->P[0], *w->T[0], lx.false_value(), xf);
   auto& f3 = lx.get_function(*w->P[0], *w->T[0], xf);
   vp_assert(&f0 == &f1, 10);
   vp_assert((&f2 == &f0) == natural && &f2 == &f3, 11);
   vp_assert(f2.transfer() == xf && &f2.source() == w->P[0] && &f2.target() == w->T[0] && &f2.throws() == &lx.false_value(), 12);
   auto& a0 = lx.get_as_type(*w->E[1]); auto& a1 = lx.get_as_type(*w->E[1], xf);
   vp_assert((&a0 == &a1) == natural && a1.transfer() == xf, 13);
   // the same transfer reached through another route gives the same function type
   if (wc.len == 0) {
      auto& xl = lx.get_transfer_from_linkage(lx.get_linkage(lx.get_string(wl.view())));
      vp_assert(xl == xf && &lx.get_function(*w->P[0], *w->T[0], xl) == &f2, 14);
   }
   if (isCxx) {
      auto& xc = lx.get_transfer_from_convention(lx.get_calling_convention(wc.view()));
      vp_assert(xc == xf && &lx.get_function(*w->P[0], *w->T[0], xc) == &f2, 15);
   }
   vp_done();
}
// (4) products and sums: Warehouse vs caller-owned sequence, symbolic lengths, element-by-element comparison
extern "C" void h_sequences(void) {
   World* w = new World; auto& lx = w->lx;
   unsigned n[2], el[2][3]; const ipr::Product* p[2]; const ipr::Sum* s[2];
   for (int i = 0; i < 2; ++i) {
      n[i] = vp_pick(4); bool through_warehouse = vp_flag();
      if (through_warehouse) {
         impl::Warehouse<ipr::Type>* wh = new impl::Warehouse<ipr::Type>;
         for (unsigned k = 0; k < n[i]; ++k) { el[i][k] = vp_pick(3); wh->push_back(*w->T[el[i][k]]); }
         p[i] = &lx.get_product(*wh); s[i] = &lx.get_sum(*wh);
         delete wh;                                         // the contents were copied into the Lexicon
      } else {
         auto* seq = new impl::ref_sequence<ipr::Type>;     // caller-owned, kept alive (documented duty of the caller)
         for (unsigned k = 0; k < n[i]; ++k) { el[i][k] = vp_pick(3); seq->push_back(w->T[el[i][k]]); }
         p[i] = &lx.get_product(*seq); s[i] = &lx.get_sum(*seq);
      }
      vp_assert(p[i]->size() == n[i] && s[i]->size() == n[i], 20);
      for (unsigned k = 0; k < n[i]; ++k) vp_assert(&(*p[i])[k] == w->T[el[i][k]] && &(*s[i])[k] == w->T[el[i][k]], 21);
   }
   bool same = n[0] == n[1];
   for (unsigned k = 0; same && k < n[0]; ++k) if (el[0][k] != el[1][k]) same = false;
   vp_assert((p[0] == p[1]) == same && (s[0] == s[1]) == same, 22);
   vp_assert(static_cast<const void*>(p[0]) != static_cast<const void*>(s[0]), 23);
   vp_done();
}
