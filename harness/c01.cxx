// C01 — types are unified: same constructor arguments give the same node, and only then.
#include "common.h"
#ifndef C01_K
#define C01_K 2
#endif
#ifndef C01_FILL
#define C01_FILL 12
#endif
namespace {
   struct World {
      impl::Lexicon lx;
      impl::Translation_unit unit { lx };
      const ipr::Type* T[3];         // unqualified operand types, sorted by address
      const ipr::Expr* E[3];         // E[0] is the default exception specification (false)
      const ipr::Product* P[2];
      const ipr::Sum* S[2];
      const ipr::Linkage* L[3];      // L[0] = C++ (natural)
      const ipr::Calling_convention* C[2];   // C[0] = natural (empty)
      const ipr::Identifier* ID[3];          // identifiers denoting types: two extended built-ins and a built-in spelling
      // fillers: operand nodes that only the concrete bulk requests of h_separated use; `pre` of them are created before the
      // pools and the others after, so that the pool nodes sit in the middle of the address order the tables are keyed on
      enum { NF = C01_FILL, NK = 16 };
      const ipr::Type* F[NF ? NF : 1]; const ipr::Expr* FE[NF ? NF : 1]; const ipr::Linkage* FL[NF ? NF : 1];
      const void* fnode[NF ? NF : 1][NK];
      void make_fillers(int from, int to) {
         static const char8_t* const spell[] = { u8"a", u8"b", u8"c", u8"d", u8"e", u8"f", u8"g", u8"h", u8"i", u8"j", u8"k", u8"l", u8"m", u8"n", u8"o", u8"p", u8"q", u8"r", u8"s", u8"t", u8"u", u8"v", u8"w", u8"x",
            u8"aa", u8"ab", u8"ac", u8"ad", u8"ae", u8"af", u8"ag", u8"ah", u8"ai", u8"aj", u8"ak", u8"al", u8"am", u8"an", u8"ao", u8"ap", u8"aq", u8"ar", u8"as", u8"at", u8"au", u8"av", u8"aw", u8"ax" };
         for (int i = from; i < to && i < NF; ++i) {
            F[i] = (i % 3 == 0) ? static_cast<const ipr::Type*>(lx.make_class(*unit.global_region())) : (i % 3 == 1) ? static_cast<const ipr::Type*>(lx.make_union(*unit.global_region())) : static_cast<const ipr::Type*>(lx.make_enum(*unit.global_region(), ipr::Enum::Kind::Scoped));
            FE[i] = lx.make_literal(lx.int_type(), spell[i % 48]); FL[i] = &lx.get_linkage(spell[i % 48]);
         }
      }
      explicit World(int pre = -1) {        // fillers only for the harnesses that ask for them (they enlarge every table)
         const bool fill = pre >= 0; if (fill) make_fillers(0, pre);
         T[0] = &lx.int_type(); T[1] = lx.make_class(*unit.global_region()); T[2] = &lx.get_pointer(lx.bool_type());
         vp_sort_by_address(T, 3);
         E[0] = &lx.false_value(); E[1] = &lx.true_value(); E[2] = lx.make_literal(lx.int_type(), u8"3");
         vp_sort_by_address(E + 1, 2);
         impl::Warehouse<ipr::Type> w1, w2; w1.push_back(lx.int_type()); w2.push_back(lx.int_type()); w2.push_back(lx.bool_type());
         P[0] = &lx.get_product(w1); P[1] = &lx.get_product(w2); vp_sort_by_address(P, 2);
         S[0] = &lx.get_sum(w1); S[1] = &lx.get_sum(w2); vp_sort_by_address(S, 2);
         L[0] = &lx.cxx_linkage(); L[1] = &lx.c_linkage(); L[2] = &lx.get_linkage(u8"Zed");
         C[0] = &lx.get_calling_convention(u8""); C[1] = &lx.get_calling_convention(u8"fastcall");
         ID[0] = &lx.get_identifier(u8"__int128"); ID[1] = &lx.get_identifier(u8"__float128"); ID[2] = &lx.get_identifier(u8"int");
         if (fill) make_fillers(pre, NF);
      }
      // one concrete request per table for filler i (deterministic: nothing symbolic, so it costs instructions only)
      void bulk_one(int i, const void** out) {
         auto& f = *F[i]; int k = 0;
         out[k++] = &lx.get_pointer(f); out[k++] = &lx.get_reference(f); out[k++] = &lx.get_rvalue_reference(f);
         out[k++] = &lx.get_array(f, *E[i % 3]); out[k++] = &lx.get_array(*T[i % 3], *FE[i]);
         out[k++] = &lx.get_qualified(ipr::Qualifiers(1 + (i * 3) % 7), f);
         out[k++] = &lx.get_function(*P[i % 2], f); out[k++] = &lx.get_function(*P[i % 2], f, *FE[i]);
         out[k++] = &lx.get_function(*P[i % 2], f, *E[i % 3], lx.get_transfer(*FL[i], *C[i % 2]));
         impl::Warehouse<ipr::Type> wh; wh.push_back(f); if (i % 2) wh.push_back(*T[i % 3]);
         out[k++] = &lx.get_product(wh); out[k++] = &lx.get_sum(wh);
         out[k++] = &lx.get_forall(*P[i % 2], f); out[k++] = &lx.get_ptr_to_member(f, *T[i % 3]);
         out[k++] = &lx.get_as_type(*FE[i]); out[k++] = &lx.get_as_type(*FE[i], lx.get_transfer(*FL[i], *C[1]));
         out[k++] = &lx.get_transfer(*FL[i], *C[1]);
      }
      void bulk(int from, int to) { for (int i = from; i < to && i < NF; ++i) bulk_one(i, fnode[i]); }
      bool bulk_unchanged(int from, int to) {
         bool ok = true; const void* again[NK];
         for (int i = from; i < to && i < NF; ++i) { bulk_one(i, again); for (int k = 0; k < NK; ++k) ok = ok && again[k] == fnode[i][k]; }
         return ok;
      }
   };
   enum Ctor { KPointer, KReference, KRvalue_reference, KArray, KQualified, KFunction, KProduct, KSum, KForall, KPtr_to_member, KTor, KAs_type, KAs_type_id, KTransfer, NCTOR };
   struct Req { unsigned c; unsigned a[4]; const void* node; };

   // Issue one symbolically chosen request to constructor c.  a[] receives the canonical arguments.
   // lvl 0: full pools and request forms; 1 (lite): fewer transfer choices; 2 (tiny): two candidates per operand, long form only
   const void* request(World& w, Req& r, unsigned c, int lvl = 0) {
      auto& lx = w.lx; r.c = c; r.a[0] = r.a[1] = r.a[2] = r.a[3] = 0;
      const bool lite = lvl >= 1, tiny = lvl >= 2; const unsigned nt = tiny ? 2 : 3;
      switch (c) {
      case KPointer: r.a[0] = vp_pick(3); return &lx.get_pointer(*w.T[r.a[0]]);
      case KReference: r.a[0] = vp_pick(3); return &lx.get_reference(*w.T[r.a[0]]);
      case KRvalue_reference: r.a[0] = vp_pick(3); return &lx.get_rvalue_reference(*w.T[r.a[0]]);
      case KArray: r.a[0] = vp_pick(nt); r.a[1] = vp_pick(3); return &lx.get_array(*w.T[r.a[0]], *w.E[r.a[1]]);
      case KQualified: r.a[0] = 1 + vp_pick(7); r.a[1] = vp_pick(nt); return &lx.get_qualified(ipr::Qualifiers(r.a[0]), *w.T[r.a[1]]);      // every non-empty subset of {const, volatile, restrict}
      case KFunction: {
         r.a[0] = vp_pick(2); r.a[1] = vp_pick(lite ? 2 : 3); r.a[2] = vp_pick(2); unsigned l = vp_pick(2), cc = lite ? 0 : vp_pick(2); r.a[3] = l * 2 + cc;
         auto& xf = lx.get_transfer(*w.L[l], *w.C[cc]);
         unsigned form = tiny ? 0 : vp_pick(2);
         // a request that omits the default non-throwing specification / the natural transfer is the same request as one that spells it out
         if (r.a[2] == 0 && r.a[3] == 0 && form) return &lx.get_function(*w.P[r.a[0]], *w.T[r.a[1]]);
         if (r.a[2] == 0 && form) return &lx.get_function(*w.P[r.a[0]], *w.T[r.a[1]], xf);
         if (r.a[3] == 0 && form) return &lx.get_function(*w.P[r.a[0]], *w.T[r.a[1]], *w.E[r.a[2]]);
         return &lx.get_function(*w.P[r.a[0]], *w.T[r.a[1]], *w.E[r.a[2]], xf); }
      case KProduct: case KSum: {
         unsigned n = vp_pick(3); r.a[0] = n; impl::Warehouse<ipr::Type> wh;
         for (unsigned i = 0; i < n; ++i) { unsigned k = vp_pick(3); r.a[1 + i] = k; wh.push_back(*w.T[k]); }
         return c == KProduct ? static_cast<const void*>(&lx.get_product(wh)) : static_cast<const void*>(&lx.get_sum(wh)); }
      case KForall: r.a[0] = vp_pick(2); r.a[1] = vp_pick(3); return &lx.get_forall(*w.P[r.a[0]], *w.T[r.a[1]]);
      case KPtr_to_member: r.a[0] = vp_pick(3); r.a[1] = vp_pick(3); return &lx.get_ptr_to_member(*w.T[r.a[0]], *w.T[r.a[1]]);
      case KTor: r.a[0] = vp_pick(2); r.a[1] = vp_pick(2); return &lx.get_tor(*w.P[r.a[0]], *w.S[r.a[1]]);
      case KAs_type: {
         r.a[0] = vp_pick(lite ? 2 : 3); unsigned l = vp_pick(tiny ? 3 : 2), cc = lite && !tiny ? 0 : vp_pick(2); r.a[1] = l * 2 + cc; unsigned form = tiny ? 0 : vp_pick(2);
         if (r.a[1] == 0 && form) return &lx.get_as_type(*w.E[r.a[0]]);
         return &lx.get_as_type(*w.E[r.a[0]], lx.get_transfer(*w.L[l], *w.C[cc])); }
      case KAs_type_id: r.a[0] = vp_pick(3); return &lx.get_as_type(*w.ID[r.a[0]]);          // identifier -> (extended) built-in type
      case KTransfer: {
         r.a[0] = vp_pick(3); r.a[1] = vp_pick(2); unsigned form = tiny ? 0 : vp_pick(2);
         if (r.a[1] == 0 && form) return &lx.get_transfer_from_linkage(*w.L[r.a[0]]);
         if (r.a[0] == 0 && form) return &lx.get_transfer_from_convention(*w.C[r.a[1]]);
         return &lx.get_transfer(*w.L[r.a[0]], *w.C[r.a[1]]); }
      }
      return nullptr;
   }
   // the same request again (nothing symbolic: arguments taken from r)
   const void* again(World& w, const Req& r) {
      auto& lx = w.lx;
      switch (r.c) {
      case KPointer: return &lx.get_pointer(*w.T[r.a[0]]);
      case KReference: return &lx.get_reference(*w.T[r.a[0]]);
      case KRvalue_reference: return &lx.get_rvalue_reference(*w.T[r.a[0]]);
      case KArray: return &lx.get_array(*w.T[r.a[0]], *w.E[r.a[1]]);
      case KQualified: return &lx.get_qualified(ipr::Qualifiers(r.a[0]), *w.T[r.a[1]]);
      case KFunction: return &lx.get_function(*w.P[r.a[0]], *w.T[r.a[1]], *w.E[r.a[2]], lx.get_transfer(*w.L[r.a[3] / 2], *w.C[r.a[3] % 2]));
      case KProduct: case KSum: { impl::Warehouse<ipr::Type> wh; for (unsigned i = 0; i < r.a[0]; ++i) wh.push_back(*w.T[r.a[1 + i]]);
         return r.c == KProduct ? static_cast<const void*>(&lx.get_product(wh)) : static_cast<const void*>(&lx.get_sum(wh)); }
      case KForall: return &lx.get_forall(*w.P[r.a[0]], *w.T[r.a[1]]);
      case KPtr_to_member: return &lx.get_ptr_to_member(*w.T[r.a[0]], *w.T[r.a[1]]);
      case KTor: return &lx.get_tor(*w.P[r.a[0]], *w.S[r.a[1]]);
      case KAs_type: return &lx.get_as_type(*w.E[r.a[0]], lx.get_transfer(*w.L[r.a[1] / 2], *w.C[r.a[1] % 2]));
      case KAs_type_id: return &lx.get_as_type(*w.ID[r.a[0]]);
      case KTransfer: return &lx.get_transfer(*w.L[r.a[0]], *w.C[r.a[1]]);
      }
      return nullptr;
   }
   inline bool same_args(const Req& x, const Req& y) {
      return x.c == y.c && x.a[0] == y.a[0] && x.a[1] == y.a[1] && x.a[2] == y.a[2] && x.a[3] == y.a[3];
   }
}
// (1) two requests to one constructor (the tree shapes themselves are C08's subject)
extern "C" void h_same_table(void) {
   World* w = new World; Req r[2];
   unsigned c = vp_pick(NCTOR);
   for (int i = 0; i < 2; ++i) r[i].node = request(*w, r[i], c);
   for (int i = 0; i < 2; ++i) for (int j = i + 1; j < 2; ++j) {
      if (c == KTransfer) {        // transfers are values: the natural transfer may be represented by several nodes, compared with ==
         auto& x = *static_cast<const ipr::Transfer*>(r[i].node); auto& y = *static_cast<const ipr::Transfer*>(r[j].node);
         vp_assert((x == y) == same_args(r[i], r[j]), 3);
         if (same_args(r[i], r[j]) && !(r[i].a[0] == 0 || r[i].a[1] == 0)) vp_assert(r[i].node == r[j].node, 4);
      }
      else vp_assert((r[i].node == r[j].node) == same_args(r[i], r[j]), 1);
   }
   vp_done();
}
// (2) histories of C01_K+1 arbitrary requests (any constructor at every step): "no matter what was built in between"
extern "C" void h_history(void) {
   World* w = new World; Req r[C01_K + 1];
   for (int i = 0; i <= C01_K; ++i) { unsigned c = vp_pick(NCTOR - 1); r[i].node = request(*w, r[i], c, 1); }     // Transfer excluded here (see h_same_table)
   for (int i = 0; i <= C01_K; ++i) for (int j = i + 1; j <= C01_K; ++j)
      vp_assert((r[i].node == r[j].node) == same_args(r[i], r[j]), 2);
   vp_done();
}
// (2a) three requests to one table, then each of them again: whatever shape the table has taken (the third insertion rotates a
// line of three), every key is still found.  Covers the comparators that cannot be named from outside (function / as-type with
// transfer) and, because the three keys are arbitrary, every insertion order.
extern "C" void h_table3(void) {
   World* w = new World; Req r[3];
   unsigned c = vp_pick(NCTOR - 1);
   for (int i = 0; i < 3; ++i) r[i].node = request(*w, r[i], c, 2);
   for (int i = 0; i < 3; ++i) for (int j = i + 1; j < 3; ++j) vp_assert((r[i].node == r[j].node) == same_args(r[i], r[j]), 8);
   for (int i = 0; i < 3; ++i) vp_assert(again(*w, r[i]) == r[i].node, 9);
   vp_done();
}
// (2c) the key comparators are total orders that agree with argument identity: for three arbitrary keys of one table,
// cmp(node(ki), kj) is zero exactly for equal arguments, antisymmetric and transitive.  Together with C08 (the tree is right for
// every total order) this is what extends unification to histories of any length.  The comparators are called directly on real nodes.
namespace {
   inline int sgn(int x) { return x < 0 ? -1 : x > 0 ? 1 : 0; }
   template<class N, class I> const N& as_impl(const I& x) { return static_cast<const N&>(x); }
}
extern "C" void h_order_lemmas(void) {
   World* w = new World; auto& lx = w->lx; Req r[3]; int c[3][3];
   unsigned k = vp_pick(NCTOR - 3);        // the nameable comparators: every table but function/as-type with transfer (see h_table3) and transfers (values)
   for (int i = 0; i < 3; ++i) r[i].node = request(*w, r[i], k, 2);
   for (int i = 0; i < 3; ++i) for (int j = 0; j < 3; ++j) {
      const Req& x = r[i]; const Req& y = r[j];
      switch (k) {
      case KPointer: c[i][j] = impl::unified_type_compare()(*static_cast<const ipr::Pointer*>(x.node), *w->T[y.a[0]]); break;
      case KReference: c[i][j] = impl::unified_type_compare()(*static_cast<const ipr::Reference*>(x.node), *w->T[y.a[0]]); break;
      case KRvalue_reference: c[i][j] = impl::unified_type_compare()(*static_cast<const ipr::Rvalue_reference*>(x.node), *w->T[y.a[0]]); break;
      case KArray: c[i][j] = impl::binary_compare()(*static_cast<const impl::Array*>(x.node), impl::Array::Rep{ *w->T[y.a[0]], *w->E[y.a[1]] }); break;
      case KQualified: c[i][j] = impl::binary_compare()(*static_cast<const impl::Qualified*>(x.node), impl::Qualified::Rep{ ipr::Qualifiers(y.a[0]), *w->T[y.a[1]] }); break;
      case KFunction: c[i][j] = (y.a[3] == 0 && x.a[3] == 0) ? impl::ternary_compare()(*static_cast<const impl::Function*>(x.node), impl::Function::Rep{ *w->P[y.a[0]], *w->T[y.a[1]], *w->E[y.a[2]] }) : 2; break;
      case KProduct: case KSum: { impl::ref_sequence<ipr::Type> seq; for (unsigned e = 0; e < y.a[0]; ++e) seq.push_back(w->T[y.a[1 + e]]);
         c[i][j] = k == KProduct ? impl::unary_lexicographic_compare()(*static_cast<const impl::Product*>(x.node), seq) : impl::unary_lexicographic_compare()(*static_cast<const impl::Sum*>(x.node), seq); break; }
      case KForall: c[i][j] = impl::binary_compare()(*static_cast<const impl::Forall*>(x.node), impl::Forall::Rep{ *w->P[y.a[0]], *w->T[y.a[1]] }); break;
      case KPtr_to_member: c[i][j] = impl::binary_compare()(*static_cast<const impl::Ptr_to_member*>(x.node), impl::Ptr_to_member::Rep{ *w->T[y.a[0]], *w->T[y.a[1]] }); break;
      case KTor: c[i][j] = impl::binary_compare()(*static_cast<const impl::Tor*>(x.node), impl::Tor::Rep{ *w->P[y.a[0]], *w->S[y.a[1]] }); break;
      default: c[i][j] = 2;
      }
   }
   for (int i = 0; i < 3; ++i) for (int j = 0; j < 3; ++j) if (c[i][j] != 2 && c[j][i] != 2) {
      vp_assert((c[i][j] == 0) == same_args(r[i], r[j]), 30);
      vp_assert(sgn(c[i][j]) == -sgn(c[j][i]), 31);
   }
   if (c[0][1] != 2 && c[1][2] != 2 && c[0][2] != 2) vp_assert(!(c[0][1] < 0 && c[1][2] < 0) || c[0][2] < 0, 32);      // evaluated on every path (the order of process-wide constants differs between the engine and the native build)
   vp_done();
}
// (2b) requests separated by bulk insertions that rebalance every lookup tree: C01_FILL/2 concrete requests to every table,
// request A, the other half of the bulk, request B, request A again.  The pool operands sit in the middle of the address order.
extern "C" void h_separated(void) {
   World* w = new World(World::NF / 2); Req r[3];
   unsigned c = vp_pick(NCTOR - 1);
   w->bulk(0, World::NF / 2);
   r[0].node = request(*w, r[0], c, 1);
   w->bulk(World::NF / 2, World::NF);
   r[1].node = request(*w, r[1], c, 1);
   vp_assert((r[0].node == r[1].node) == same_args(r[0], r[1]), 5);
   vp_assert(w->bulk_unchanged(0, World::NF), 6);                                  // every earlier request still yields its node
   for (int i = 0; i < World::NF; ++i) for (int k = 0; k < World::NK; ++k) vp_assert(w->fnode[i][k] != r[0].node && w->fnode[i][k] != r[1].node, 7);
   vp_done();
}
// (3) normal forms with symbolic linkage / convention spellings
extern "C" void h_normal_forms(void) {
   World* w = new World; auto& lx = w->lx;
   Word<3> wl; wl.make();
   struct { util::word_view view() const { return len ? util::word_view(u8"cc") : util::word_view(u8""); } unsigned len; } wc { vp_pick(2) * 2 };
   bool isCxx = wl.view() == util::word_view(u8"C++"), natural = isCxx && wc.len == 0;
   auto& xf = lx.get_transfer(lx.get_linkage(wl.view()), lx.get_calling_convention(wc.view()));
   auto& f0 = lx.get_function(*w->P[0], *w->T[0]);
   auto& f1 = lx.get_function(*w->P[0], *w->T[0], lx.false_value());
   auto& f2 = lx.get_function(*w->P[0], *w->T[0], lx.false_value(), xf);
   auto& f3 = lx.get_function(*w->P[0], *w->T[0], xf);
   vp_assert(&f0 == &f1, 10);
   vp_assert((&f2 == &f0) == natural && &f2 == &f3, 11);
   vp_assert(f2.transfer() == xf && &f2.source() == w->P[0] && &f2.target() == w->T[0] && &f2.throws() == &lx.false_value(), 12);
   auto& a0 = lx.get_as_type(*w->E[1]); auto& a1 = lx.get_as_type(*w->E[1], xf);
   vp_assert((&a0 == &a1) == natural && a1.transfer() == xf, 13);
   // the same transfer reached through another route gives the same function type
   if (wc.len == 0) {
      auto& xl = lx.get_transfer_from_linkage(lx.get_linkage(lx.get_string(wl.view())));
      vp_assert(xl == xf && &lx.get_function(*w->P[0], *w->T[0], xl) == &f2, 14);
   }
   if (isCxx) {
      auto& xc = lx.get_transfer_from_convention(lx.get_calling_convention(wc.view()));
      vp_assert(xc == xf && &lx.get_function(*w->P[0], *w->T[0], xc) == &f2, 15);
   }
   vp_done();
}
// (4) products and sums: Warehouse vs caller-owned sequence, symbolic lengths, element-by-element comparison
extern "C" void h_sequences(void) {
   World* w = new World; auto& lx = w->lx;
   unsigned n[2], el[2][3]; const ipr::Product* p[2]; const ipr::Sum* s[2];
   for (int i = 0; i < 2; ++i) {
      n[i] = vp_pick(4); bool through_warehouse = vp_flag();
      if (through_warehouse) {
         impl::Warehouse<ipr::Type>* wh = new impl::Warehouse<ipr::Type>;
         for (unsigned k = 0; k < n[i]; ++k) { el[i][k] = vp_pick(3); wh->push_back(*w->T[el[i][k]]); }
         p[i] = &lx.get_product(*wh); s[i] = &lx.get_sum(*wh);
         delete wh;                                         // the contents were copied into the Lexicon
      } else {
         auto* seq = new impl::ref_sequence<ipr::Type>;     // caller-owned, kept alive (documented duty of the caller)
         for (unsigned k = 0; k < n[i]; ++k) { el[i][k] = vp_pick(3); seq->push_back(w->T[el[i][k]]); }
         p[i] = &lx.get_product(*seq); s[i] = &lx.get_sum(*seq);
      }
      vp_assert(p[i]->size() == n[i] && s[i]->size() == n[i], 20);
      for (unsigned k = 0; k < n[i]; ++k) vp_assert(&(*p[i])[k] == w->T[el[i][k]] && &(*s[i])[k] == w->T[el[i][k]], 21);
   }
   bool same = n[0] == n[1];
   for (unsigned k = 0; same && k < n[0]; ++k) if (el[0][k] != el[1][k]) same = false;
   vp_assert((p[0] == p[1]) == same && (s[0] == s[1]) == same, 22);
   vp_assert(static_cast<const void*>(p[0]) != static_cast<const void*>(s[0]), 23);
   vp_done();
}
