// Native runtime for harness TUs: replays a nondet vector against the real (g++-built) code.
// usage: bin <entry> <vector-file>     vector file: whitespace separated unsigned decimal integers
#include <cstdint>
#include <cstdio>
#include <cstdlib>
#include <vector>
#include <stdexcept>
#include <exception>
#include <dlfcn.h>

#ifdef VP_THREADS
#include <thread>
#define VP_TLS thread_local
#else
#define VP_TLS
#endif
static std::vector<uint64_t> vec;          // written before the threads start, read-only afterwards
static VP_TLS size_t pos = 0;
static VP_TLS int failed = 0;

extern "C" {
   uint64_t nondet_ulong(void) { return pos < vec.size() ? vec[pos++] : (pos++, 0); }
   void vp_assume(int c) { if (!c) { std::printf("ASSUME-END\n"); std::fflush(stdout); std::_Exit(failed ? 1 : 0); } }
   void vp_assert(int c, int id) { std::printf("ASSERT %d %s\n", id, c ? "ok" : "FAILED"); if (!c) failed = 1; }
   uint64_t vp_fork(uint64_t x) { return x; }
   void vp_observe(uint64_t tag, uint64_t v) { std::printf("OBSERVE %llu %llu\n", (unsigned long long)tag, (unsigned long long)v); }
   void vp_done(void) { std::printf("DONE\n"); }
   void vp_mark(void) { }
   void vp_phase(int) { }
   void vp_leakcheck(void) { std::printf("ASSERT 9000 ok\n"); }      // the accounting itself is LeakSanitizer's (replay build)
}

int main(int argc, char** argv)
{
   if (argc < 3) { std::fprintf(stderr, "usage: %s entry vector-file\n", argv[0]); return 2; }
   if (FILE* f = std::fopen(argv[2], "r")) {
      unsigned long long x;
      while (std::fscanf(f, "%llu", &x) == 1) vec.push_back(x);
      std::fclose(f);
   }
   auto fn = reinterpret_cast<void (*)()>(dlsym(RTLD_DEFAULT, argv[1]));
   if (!fn) { std::fprintf(stderr, "no entry %s\n", argv[1]); return 2; }
   auto run = [fn]() -> int {
      try { fn(); }
      catch (const std::logic_error&) { std::printf("UNCAUGHT logic_error\n"); failed = 1; }
      catch (const std::exception&) { std::printf("UNCAUGHT std::exception\n"); failed = 1; }
      catch (...) { std::printf("UNCAUGHT other\n"); failed = 1; }
      return failed;
   };
#ifdef VP_THREADS
   // C20 replay: the same construction program on two threads, each with its own Lexicons, under ThreadSanitizer
   int r1 = 0, r2 = 0;
   std::thread t1([&] { r1 = run(); }), t2([&] { r2 = run(); });
   t1.join(); t2.join();
   std::fflush(stdout);
   return (r1 || r2) ? 1 : 0;
#else
   int r = run();
   std::fflush(stdout);
   return r ? 1 : 0;
#endif
}
