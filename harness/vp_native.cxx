// Native runtime for harness TUs: replays a nondet vector against the real (g++-built) code.
// usage: bin <entry> <vector-file>     vector file: whitespace separated unsigned decimal integers
#include <cstdint>
#include <cstdio>
#include <cstdlib>
#include <vector>
#include <stdexcept>
#include <exception>
#include <dlfcn.h>

#ifdef VP_THREADS
#include <thread>
#define VP_TLS thread_local
#else
#define VP_TLS
#endif
#include <cstring>
#include <string>
#include <map>
static std::vector<uint64_t> vec;          // written before the threads start, read-only afterwards
static std::map<std::string, uint64_t>* hash_override;      // contents -> hash value chosen by the solver (equal-hash neighbours)
static VP_TLS size_t pos = 0;
static VP_TLS int failed = 0;

extern "C" {
   uint64_t nondet_ulong(void) { return pos < vec.size() ? vec[pos++] : (pos++, 0); }
   void vp_assume(int c) { if (!c) { std::printf("ASSUME-END\n"); std::fflush(stdout); std::_Exit(failed ? 1 : 0); } }
   void vp_assert(int c, int id) { std::printf("ASSERT %d %s\n", id, c ? "ok" : "FAILED"); if (!c) failed = 1; }
   uint64_t vp_fork(uint64_t x) { return x; }
   void vp_observe(uint64_t tag, uint64_t v) { std::printf("OBSERVE %llu %llu\n", (unsigned long long)tag, (unsigned long long)v); }
   void vp_done(void) { std::printf("DONE\n"); }
   void vp_check_range(void* p, uint64_t len) { volatile unsigned char* q = static_cast<unsigned char*>(p); for (uint64_t i = 0; i < len; ++i) q[i] = 0xAA; std::printf("ASSERT 9001 ok\n"); }
   void vp_mark(void) { }
   void vp_phase(int) { }
   void vp_leakcheck(void) { std::printf("ASSERT 9000 ok\n"); }      // the accounting itself is LeakSanitizer's (replay build)
}

// std::hash of byte strings, interposed: the real libstdc++ algorithm (MurmurHash64A variant) unless the replay file assigns the
// content a value ("H <hex bytes> <value>" lines) - any function of the content is a legitimate std::hash, and the property
// quantifies over equal-hash neighbours, which cannot be found by inverting the real function.
namespace std {
   size_t _Hash_bytes(const void* ptr, size_t len, size_t seed)
   {
      if (hash_override) { auto it = hash_override->find(std::string(static_cast<const char*>(ptr), len)); if (it != hash_override->end()) return it->second; }
      const size_t mul = (size_t(0xc6a4a793UL) << 32UL) + size_t(0x5bd1e995UL);
      const char* const buf = static_cast<const char*>(ptr);
      const size_t len_aligned = len & ~size_t(0x7);
      const char* const end = buf + len_aligned;
      size_t hash = seed ^ (len * mul);
      auto shift_mix = [](size_t v) { return v ^ (v >> 47); };
      for (const char* p = buf; p != end; p += 8) { size_t d; std::memcpy(&d, p, 8); const size_t data = shift_mix(d * mul) * mul; hash ^= data; hash *= mul; }
      if ((len & 0x7) != 0) { size_t data = 0; int n = int(len & 0x7) - 1; do data = (data << 8) + static_cast<unsigned char>(end[n]); while (--n >= 0); hash ^= data; hash *= mul; }
      hash = shift_mix(hash) * mul; hash = shift_mix(hash);
      return hash;
   }
}

int main(int argc, char** argv)
{
   if (argc < 3) { std::fprintf(stderr, "usage: %s entry vector-file\n", argv[0]); return 2; }
   if (FILE* f = std::fopen(argv[2], "r")) {
      char tok[1 << 12];
      while (std::fscanf(f, "%4095s", tok) == 1) {
         if (tok[0] == 'H' && tok[1] == 0) {
            char hx[1 << 12]; unsigned long long hv;
            if (std::fscanf(f, "%4095s %llu", hx, &hv) != 2) break;
            std::string bytes; for (size_t i = 0; hx[i] && hx[i + 1]; i += 2) { unsigned b; std::sscanf(hx + i, "%2x", &b); bytes.push_back(char(b)); }
            if (!hash_override) hash_override = new std::map<std::string, uint64_t>;
            (*hash_override)[bytes] = hv;
         }
         else vec.push_back(std::strtoull(tok, nullptr, 10));
      }
      std::fclose(f);
   }
   auto fn = reinterpret_cast<void (*)()>(dlsym(RTLD_DEFAULT, argv[1]));
   if (!fn) { std::fprintf(stderr, "no entry %s\n", argv[1]); return 2; }
   auto run = [fn]() -> int {
      try { fn(); }
      catch (const std::logic_error&) { std::printf("UNCAUGHT logic_error\n"); failed = 1; }
      catch (const std::exception&) { std::printf("UNCAUGHT std::exception\n"); failed = 1; }
      catch (...) { std::printf("UNCAUGHT other\n"); failed = 1; }
      return failed;
   };
#ifdef VP_THREADS
   // C20 replay: the same construction program on two threads, each with its own Lexicons, under ThreadSanitizer
   int r1 = 0, r2 = 0;
   std::thread t1([&] { r1 = run(); }), t2([&] { r2 = run(); });
   t1.join(); t2.join();
   std::fflush(stdout);
   return (r1 || r2) ? 1 : 0;
#else
   int r = run();
   std::fflush(stdout);
   return r ? 1 : 0;
#endif
}
