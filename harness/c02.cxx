// C02 — every factory-built node reports exactly the operands it was built from.
#include "zoo.h"
namespace {
   struct Operand_check {
      void generative() { }
      int nodes = 0, checks = 0;
      template<class I> void node(const I&) { ++nodes; }
      void operands(bool ok) { vp_assert(ok, 1); ++checks; }
      template<class N> void typed(const N&, const ipr::Type*) { }
   };
}
extern "C" void h_factories(void) {
   unsigned total = zoo::count();
   zoo::World* w = new zoo::World;
   unsigned which = vp_pick(total);
   vp_observe(1, which);
   Operand_check v;
   zoo::build(*w, which, v);
   vp_assert(v.checks >= 1, 2);        // every factory reports at least one operand check (guards the zoo itself against empty cases)
   vp_done();
}
// the same factory used twice on one Lexicon with independently picked operands: the second node reports the second operands
// (a factory that remembers its last request, or shares storage between calls, is visible here and not in a single use)
extern "C" void h_twice(void) {
   unsigned total = zoo::count();
   zoo::World* w = new zoo::World;
   unsigned which = vp_pick(total);
   vp_observe(1, which);
   Operand_check v;
   zoo::build(*w, which, v);
   int first = v.checks;
   w->reg = w->reg->make_subregion();       // declarations of the second use go to a fresh scope (the zoo's oracles describe a first declaration, not a redeclaration)
   zoo::build(*w, which, v);
   vp_assert(v.checks >= first + 1, 3);
   vp_done();
}
