// C03 — words are interned: one String node per distinct byte content, content preserved.
#include "common.h"
#ifndef C03_K
#define C03_K 3
#endif
#ifndef C03_L
#define C03_L 24
#endif
#ifndef C03_RL
#define C03_RL 18
#endif
namespace {
   // lengths around the inline-header (8) and granule (16) boundaries
#if C03_K >= 9
   const unsigned lens[] = { 0, 1, 7, 8, 9, 24, 25, 40 };
#else
   const unsigned lens[] = { 0, 1, 8, 9, 24 };
#endif
   constexpr unsigned NLENS = sizeof lens / sizeof lens[0];
   constexpr unsigned MAXL = 40;
   struct SymWord {
      char8_t buf[MAXL]; unsigned len;
      void make(const unsigned* ls = lens, unsigned nls = NLENS) {
         len = ls[vp_pick(nls)];
         for (unsigned k = 0; k < MAXL; ++k) buf[k] = k < len ? (char8_t)nondet_ulong() : u8'\0';
         if (len) vp_not_reserved_range(buf[0]);
      }
      util::word_view view() const { return util::word_view(buf, len); }
      bool same(const SymWord& o) const { if (len != o.len) return false; bool eq = true; for (unsigned k = 0; k < len; ++k) eq = eq & (buf[k] == o.buf[k]); return eq; }
   };
   bool content_is(const ipr::String& s, const SymWord& w) {
      if (s.size() != w.len || s.characters().size() != w.len) return false;
      bool eq = true; const char8_t* p = s.characters().data();
      for (unsigned k = 0; k < w.len; ++k) eq = eq & (p[k] == w.buf[k]);
      return eq;
   }
}
// K words interned in sequence; after each later call every earlier String is re-read byte by byte
extern "C" void h_intern_hist(void) {
   impl::Lexicon* lx = new impl::Lexicon;
   SymWord w[C03_K]; const ipr::String* s[C03_K];
   // a scanner presents every word through one reused token buffer (symbolic choice): the bytes behind an earlier request are
   // overwritten by the next word, so nothing may be remembered about the caller's storage
   static char8_t token[MAXL]; const bool through_token = vp_flag();
   auto present = [&](const SymWord& x) { if (!through_token) return x.view(); for (unsigned k = 0; k < MAXL; ++k) token[k] = x.buf[k]; return util::word_view(token, x.len); };
   for (int i = 0; i < C03_K; ++i) {
      w[i].make();
      s[i] = &lx->get_string(present(w[i]));
      for (int j = 0; j <= i; ++j) vp_assert(content_is(*s[j], w[j]), 1);                   // content preserved, also for earlier strings
      for (int j = 0; j < i; ++j) vp_assert((s[i] == s[j]) == w[i].same(w[j]), 2);          // same node <=> same bytes
      if (w[i].len == 0) vp_assert(s[i] == &ipr::String::empty_string(), 3);
   }
   for (int i = 0; i < C03_K; ++i) vp_assert(&lx->get_string(present(w[i])) == s[i], 4);     // asking again returns the same node
   vp_done();
}
// roll-over: the pool cursor is placed j granules before the end of the 1 MiB pool, earlier string live
extern "C" void h_rollover(void) {
   static const unsigned la[] = { 1, 9 }, lb[] = { 1, 8, 9, 24 };
   util::string_pool* pool = new util::string_pool;
   SymWord a, b; a.make(la, 2);
   const ipr::String& sa = pool->intern(a.view());
   unsigned j = vp_pick(4);
   pool->strings.next_header = pool->strings.mem->storage + (util::string::arena::bufsz - j);      // needs -fno-access-control
   b.make(lb, 4);
   const ipr::String& sb = pool->intern(b.view());
   vp_assert(content_is(sa, a) && content_is(sb, b), 10);
   const ipr::String& sc = pool->intern(a.view());                                                 // asking again for the first word
   vp_assert(&sc == &sa && content_is(sa, a) && content_is(sb, b), 11);
   vp_assert((&sa == &sb) == a.same(b), 12);
   // storage of distinct strings does not overlap
   auto lo = [](const ipr::String& s) { return (uintptr_t)s.characters().data(); };
   auto disjoint = [&](const ipr::String& x, const ipr::String& y) { return lo(x) + x.size() <= lo(y) || lo(y) + y.size() <= lo(x); };
   if (&sa != &sb) vp_assert(disjoint(sa, sb), 13);
   vp_done();
}
// arena arithmetic directly: make_string of symbolic length at a cursor j granules before the end; block fits and is disjoint
extern "C" void h_arena(void) {
   util::string::arena* ar = new util::string::arena;
   static char8_t src[96];
   for (int k = 0; k < 96; ++k) src[k] = (char8_t)nondet_ulong();
   unsigned j = vp_pick(6);
   ar->next_header = ar->mem->storage + (util::string::arena::bufsz - j);
   auto* pool0 = ar->mem;
   uint64_t n1 = nondet_ulong() & 127; vp_assume(n1 <= 60); n1 = vp_fork(n1);
   const util::string* s1 = ar->make_string(src, n1);
   uint64_t n2 = nondet_ulong() & 31; vp_assume(n2 <= 17); n2 = vp_fork(n2);
   const util::string* s2 = ar->make_string(src + 3, n2);
   vp_assert(s1->length == (std::ptrdiff_t)n1 && s2->length == (std::ptrdiff_t)n2, 20);
   bool ok = true;
   for (uint64_t k = 0; k < n1; ++k) ok = ok & (s1->data[k] == src[k]);
   for (uint64_t k = 0; k < n2; ++k) ok = ok & (s2->data[k] == src[3 + k]);
   vp_assert(ok, 21);
   uintptr_t a1 = (uintptr_t)s1, e1 = a1 + 8 + (n1 > 8 ? n1 : 8), a2 = (uintptr_t)s2, e2 = a2 + 8 + (n2 > 8 ? n2 : 8);
   vp_assert(e1 <= a2 || e2 <= a1, 22);                                                           // blocks do not overlap
   // each block lies inside one pool's storage
   auto inside = [&](uintptr_t a, uintptr_t e) {
      for (auto* p = ar->mem; p; p = p->previous) if (a >= (uintptr_t)p->storage && e <= (uintptr_t)(p->storage + util::string::arena::bufsz)) return true;
      return false;
   };
   vp_assert(inside(a1, a1 + 8 + n1) && inside(a2, a2 + 8 + n2), 23);
   vp_assert(ar->next_header >= ar->mem->storage && ar->next_header <= ar->mem->storage + util::string::arena::bufsz, 24);
   (void)pool0;
   vp_done();
}
// arena arithmetic, one step, request size symbolic over 0..2^21: every branch of allocate() is decided by the solver.
// The cursor is placed at a picked position (start, middle, the last three granules, the very end); the request size stays a term.
extern "C" void h_arena_step(void) {
   util::string::arena* ar = new util::string::arena;
   constexpr std::ptrdiff_t bufsz = util::string::arena::bufsz;
   static const std::ptrdiff_t positions[] = { 0, 1, 4097, bufsz - 4100, bufsz - 3, bufsz - 2, bufsz - 1, bufsz };
   std::ptrdiff_t k = positions[vp_pick(8)];
   auto* pool0 = ar->mem; util::string* cursor0 = pool0->storage + k;
   ar->next_header = cursor0;
   std::ptrdiff_t n = (std::ptrdiff_t)(nondet_ulong() & 0x1fffff);             // 0 .. 2 MiB, symbolic
   util::string* h = ar->allocate(n);
   uintptr_t hb = (uintptr_t)h, need = 8 + (uintptr_t)n;                        // length field + n characters
   vp_check_range(h, need);                                                     // the block handed out can hold the string
   util::string* cursor1 = ar->next_header; auto* pool1 = ar->mem;
   uintptr_t lo1 = (uintptr_t)pool1->storage, hi1 = (uintptr_t)(pool1->storage + bufsz);
   vp_assert((uintptr_t)cursor1 >= lo1 && (uintptr_t)cursor1 <= hi1, 50);      // the cursor stays inside the current pool
   vp_assert(((uintptr_t)cursor1 - lo1) % 16 == 0, 51);
   if (pool1 == pool0 && hb >= lo1 && hb < hi1) {
      // served from the current pool: starts at the old cursor, ends before the new one, nothing before the old cursor is touched
      vp_assert(h == cursor0 && hb + need <= (uintptr_t)cursor1 && (uintptr_t)cursor1 >= (uintptr_t)cursor0, 52);
   } else if (pool1 != pool0) {
      // a fresh pool was chained: the old one stays reachable (its strings are live), the string ends before the new cursor
      vp_assert(pool1->previous == pool0 && h == pool1->storage && hb + need <= (uintptr_t)cursor1, 53);
   } else {
      // oversize block of its own, linked behind the current pool so that the destructor frees it; cursor untouched
      vp_assert(pool0->previous != nullptr && h == pool0->previous->storage && cursor1 == cursor0 && n > bufsz, 54);
   }
   delete ar;
   vp_done();
}
// oversize path: a string longer than the pool capacity (in headers) gets its own block, linked so that the destructor frees it
extern "C" void h_oversize(void) {
   static char8_t big[70000];
   util::string::arena* ar = new util::string::arena;
   const util::string* s0 = ar->make_string(u8"abc", 3);
   ar->next_header = ar->mem->storage + (util::string::arena::bufsz - 2);
   uint64_t n = 65536 + vp_fork(nondet_ulong() & 3);                 // 65536 (not oversize), 65537.. (oversize)
   big[0] = (char8_t)nondet_ulong(); big[n - 1] = (char8_t)nondet_ulong(); big[40000] = (char8_t)nondet_ulong();
   const util::string* s1 = ar->make_string(big, n);
   vp_assert(s1->length == (std::ptrdiff_t)n && s1->data[0] == big[0] && s1->data[n - 1] == big[n - 1] && s1->data[40000] == big[40000], 30);
   const util::string* s2 = ar->make_string(u8"xyz", 3);
   vp_assert(s0->length == 3 && s0->data[0] == u8'a' && s0->data[2] == u8'c' && s2->data[1] == u8'y', 31);
   vp_assert(s1->data[n - 1] == big[n - 1], 32);                      // not overwritten by the next string
   delete ar;                                                        // every pool incl. the oversize one is released (checked accesses + leak report)
   vp_done();
}
// reserved words: binary search vs linear scan over the same table, for one fully symbolic word
extern "C" void h_reserved(void) {
   impl::Lexicon* lx = new impl::Lexicon;
   Word<C03_RL> w; w.make();
   const impl::std_identifier* lin = nullptr;
   for (auto& k : impl::known_words) if (k.text() == w.view()) lin = &k;
   vp_assert(impl::word_if_known(w.view()) == lin, 40);
   const ipr::String& s = lx->get_string(w.view());
   if (w.len == 0) vp_assert(&s == &ipr::String::empty_string(), 41);
   else if (lin) vp_assert(&s == &lin->string(), 42);
   else { bool is_table = false; for (auto& k : impl::known_words) if (&s == &k.string()) is_table = true; vp_assert(!is_table && &s != &ipr::String::empty_string(), 43); }
   vp_assert(s.characters() == w.view(), 44);
   vp_done();
}
// reserved words and the empty word after other words: an arbitrary non-reserved word (symbolic bytes, hence a symbolic hash that the
// solver may make equal to the hash of anything) is interned first, then a reserved word / the empty word, then the first word again:
// the process-wide constant node every time, whatever the pool already holds under that hash code
extern "C" void h_reserved_after(void) {
   impl::Lexicon* lx = new impl::Lexicon;
   static const unsigned la[] = { 1, 3, 9 };
   SymWord a; a.make(la, 3);
   vp_assume(a.len > 0);
   const ipr::String& sa = lx->get_string(a.view());
   unsigned which = vp_pick(6);
   const impl::std_identifier* k = nullptr; unsigned n = 0;
   for (auto& e : impl::known_words) { if (n == 0 || n == 17 || n == 31 || n == 44 || &e == &impl::known_words[std::size(impl::known_words) - 1]) { if (which-- == 0) k = &e; } ++n; }
   if (k == nullptr) {                                           // the empty word
      vp_assert(&lx->get_string(util::word_view()) == &ipr::String::empty_string(), 50);
   } else {
      const ipr::String& sr = lx->get_string(k->text());
      vp_assert(&sr == &k->string() && sr.characters() == k->text(), 51);         // the constant, not a look-alike
      vp_assert(&lx->get_identifier(k->text()).string() == &sr, 52);
   }
   vp_assert(&lx->get_string(a.view()) == &sa && content_is(sa, a), 53);
   vp_done();
}
