// C07 — scopes, overload sets and declaration sets are mutually consistent.
#include "common.h"
#ifndef C07_K
#define C07_K 4
#endif
#ifndef C07_WIDE
#define C07_WIDE 8
#endif
#ifndef C07_NAMES
#define C07_NAMES 12
#endif
namespace {
   enum Kind { KVar, KField, KBitfield, KAlias, KTypedecl, KFundecl, KPrimary, KSecondary };
   // each (name, type) pair is used by one declaration kind (the property's side condition); all eight kinds occur
   // the third name is declared as a primary template with one type and as a secondary template with another (one overload set, two kinds)
   // the first name is declared as a function with two types that differ in the exception specification only
   const Kind kind_of[3][3] = { { KFundecl, KFundecl, KAlias }, { KField, KTypedecl, KVar }, { KPrimary, KBitfield, KSecondary } };
   struct World {
      impl::Lexicon lx;
      impl::Translation_unit unit { lx };
      impl::Namespace* ns;
      const ipr::Name* N[3];
      const ipr::Type* TY[3][3];        // the type of pair (n,t)
      const ipr::Expr* init[3][3];      // alias initializers (their type() is TY)
      World() {
         ns = lx.make_namespace(*unit.global_region());
         N[0] = &lx.get_identifier(u8"x"); N[1] = &lx.get_identifier(u8"y"); N[2] = &lx.get_operator(u8"+");
         const ipr::Type* T[3] = { &lx.int_type(), &lx.get_pointer(lx.char_type()), lx.make_class(*unit.global_region()) };
         impl::Warehouse<ipr::Type> w0, w1; w1.push_back(lx.int_type());
         const ipr::Product* P[2] = { &lx.get_product(w0), &lx.get_product(w1) };
         for (int n = 0; n < 3; ++n) for (int t = 0; t < 3; ++t) {
            switch (kind_of[n][t]) {
            case KFundecl: TY[n][t] = t == 0 ? &lx.get_function(*P[1], *T[1]) : &lx.get_function(*P[1], *T[1], lx.true_value()); break;
            case KPrimary: case KSecondary: TY[n][t] = &lx.get_forall(*P[1], *T[t]); break;
            default: TY[n][t] = T[t];
            }
            init[n][t] = lx.make_phantom(*TY[n][t]);
         }
      }
      const ipr::Decl* declare(unsigned n, unsigned t) {
         auto& sc = ns->body.scope;
         switch (kind_of[n][t]) {
         case KVar: return sc.make_var(*N[n], *TY[n][t]);
         case KField: return sc.make_field(*N[n], *TY[n][t]);
         case KBitfield: return sc.make_bitfield(*N[n], *TY[n][t]);
         case KAlias: return sc.make_alias(*N[n], *init[n][t]);
         case KTypedecl: return sc.make_typedecl(*N[n], *TY[n][t]);
         case KFundecl: return sc.make_fundecl(*N[n], *static_cast<const ipr::Function*>(TY[n][t]));
         case KPrimary: return sc.make_primary_template(*N[n], *static_cast<const ipr::Forall*>(TY[n][t]));
         case KSecondary: return sc.make_secondary_template(*N[n], *static_cast<const ipr::Forall*>(TY[n][t]));
         }
         return nullptr;
      }
   };
   template<class T> struct Peek : ipr::Sequence<T> { using ipr::Sequence<T>::get; };
   template<class T> const T& at(const ipr::Sequence<T>& s, std::size_t i) { return (s.*&Peek<T>::get)(i); }
}
extern "C" void h_scope_history(void) {
   World* w = new World;
   const ipr::Scope& scope = w->ns->body.scope;
   unsigned pn[C07_K], pt[C07_K]; const ipr::Decl* d[C07_K];
   vp_assert(scope.size() == 0 && !scope[*w->N[0]].is_valid(), 1);
   for (int k = 0; k < C07_K; ++k) {
      pn[k] = vp_pick(3); pt[k] = vp_pick(3);
      { // interleaved lookups: the name about to be declared is looked up immediately before and immediately after the declaration
         bool before = false; for (int i = 0; i < k; ++i) if (pn[i] == pn[k]) before = true;
         auto pre = scope[*w->N[pn[k]]];
         vp_assert(pre.is_valid() == before, 14);
         if (pre.is_valid()) { bool same_pair = false; for (int i = 0; i < k; ++i) if (pn[i] == pn[k] && pt[i] == pt[k]) same_pair = true; vp_assert(pre.get()[*w->TY[pn[k]][pt[k]]].is_valid() == same_pair, 17); }
      }
      d[k] = w->declare(pn[k], pt[k]);
      { auto now = scope[*w->N[pn[k]]]; vp_assert(now.is_valid(), 15);
        if (now.is_valid()) { auto sel = now.get()[*w->TY[pn[k]][pt[k]]]; vp_assert(sel.is_valid(), 16); } }
      int n = k + 1;
      // the scope lists every declaration in entry order; its type is the product of their types
      vp_assert(scope.elements().size() == (std::size_t)n, 2);
      auto prod = util::view<ipr::Product>(scope.type());
      vp_assert(prod != nullptr && prod->size() == (std::size_t)n, 3);
      for (int i = 0; i < n; ++i) {
         vp_assert(&at(scope.elements(), i) == d[i], 4);
         if (prod) vp_assert(&(*prod)[i] == w->TY[pn[i]][pt[i]], 5);
      }
      // lookup by name: an overload set exactly when the name was declared
      for (unsigned name = 0; name < 3; ++name) {
         bool declared = false; for (int i = 0; i < n; ++i) if (pn[i] == name) declared = true;
         auto ovl = scope[*w->N[name]];
         vp_assert(ovl.is_valid() == declared, 6);
         if (ovl.is_valid()) for (unsigned ty = 0; ty < 3; ++ty) {
            int first = -1; for (int i = n - 1; i >= 0; --i) if (pn[i] == name && pt[i] == ty) first = i;
            auto sel = ovl.get()[*w->TY[name][ty]];
            vp_assert(sel.is_valid() == (first >= 0), 7);
            if (sel.is_valid() && first >= 0) vp_assert(&sel.get() == d[first], 8);     // the first declaration entered with that name and type
         }
      }
      // every declaration: name, type, master, decl-set
      for (int i = 0; i < n; ++i) {
         vp_assert(&d[i]->name() == w->N[pn[i]], 9);
         vp_assert(&d[i]->type() == w->TY[pn[i]][pt[i]], 10);
         int first = -1, cnt = 0; for (int j = n - 1; j >= 0; --j) if (pn[j] == pn[i] && pt[j] == pt[i]) { first = j; ++cnt; }
         const ipr::Decl* m = nullptr;
         int out = vp_outcome([&] { m = &d[i]->master(); });
         vp_assert(out == 0 && m == d[first], 11);                                        // master = first declaration of the pair
         auto& ds = d[i]->decl_set();
         vp_assert(ds.size() == (std::size_t)cnt, 12);
         int pos = 0; for (int j = 0; j < n; ++j) if (pn[j] == pn[i] && pt[j] == pt[i]) { if ((std::size_t)pos < ds.size()) vp_assert(&at(ds, pos) == d[j], 13); ++pos; }
      }
   }
   vp_done();
}
// wide overload sets: one name accumulates up to C07_WIDE distinct types (a concrete prefix of symbolic length P: (x,t0) .. (x,tP-1), each
// redeclared once when its index is odd), then two symbolic declarations over 2 names x C07_WIDE types; the full oracle after the prefix and
// after each symbolic step.  Reaches every size of an overload set from 0 to C07_WIDE (thresholds inside the per-name tables).
namespace {
   struct Wide {
      enum { NT = C07_WIDE };
      impl::Lexicon lx;
      impl::Translation_unit unit { lx };
      impl::Namespace* ns;
      const ipr::Name* N[2];
      const ipr::Type* T[NT];
      Wide() {
         ns = lx.make_namespace(*unit.global_region());
         N[0] = &lx.get_identifier(u8"x"); N[1] = &lx.get_identifier(u8"y");
         const ipr::Type* base[4] = { &lx.int_type(), &lx.char_type(), &lx.bool_type(), &lx.double_type() };
         for (int i = 0; i < NT; ++i) {      // creation order and address order differ: pointers to later bases are created first
            const ipr::Type* b = base[(i * 3) % 4]; unsigned depth = i / 4;
            const ipr::Type* t = b; for (unsigned d = 0; d <= depth; ++d) t = (i % 2) ? static_cast<const ipr::Type*>(&lx.get_pointer(*t)) : static_cast<const ipr::Type*>(&lx.get_reference(*t));
            T[i] = (i % 5 == 0) ? b : t;
            for (int j = 0; j < i; ++j) if (T[j] == T[i]) T[i] = &lx.get_rvalue_reference(*t);
         }
      }
      // kind by type index: each (name, type) pair is used by one declaration kind
      const ipr::Decl* declare(unsigned n, unsigned t) {
         auto& sc = ns->body.scope;
         switch ((t + n) % 4) {
         case 0: return sc.make_var(*N[n], *T[t]);
         case 1: return sc.make_field(*N[n], *T[t]);
         case 2: return sc.make_typedecl(*N[n], *T[t]);
         default: return sc.make_bitfield(*N[n], *T[t]);
         }
      }
   };
   void wide_oracle(Wide& w, const unsigned* pn, const unsigned* pt, const ipr::Decl* const* d, int n) {
      const ipr::Scope& scope = w.ns->body.scope;
      vp_assert(scope.elements().size() == (std::size_t)n, 40);
      auto prod = util::view<ipr::Product>(scope.type());
      vp_assert(prod != nullptr && prod->size() == (std::size_t)n, 41);
      for (int i = 0; i < n; ++i) { vp_assert(&at(scope.elements(), i) == d[i], 42); if (prod) vp_assert(&(*prod)[i] == w.T[pt[i]], 43); }
      for (unsigned name = 0; name < 2; ++name) {
         bool declared = false; for (int i = 0; i < n; ++i) if (pn[i] == name) declared = true;
         auto ovl = scope[*w.N[name]];
         vp_assert(ovl.is_valid() == declared, 44);
         if (ovl.is_valid()) for (unsigned ty = 0; ty < Wide::NT; ++ty) {
            int first = -1; for (int i = n - 1; i >= 0; --i) if (pn[i] == name && pt[i] == ty) first = i;
            auto sel = ovl.get()[*w.T[ty]];
            vp_assert(sel.is_valid() == (first >= 0), 45);
            if (sel.is_valid() && first >= 0) vp_assert(&sel.get() == d[first], 46);
         }
      }
      for (int i = 0; i < n; ++i) {
         int first = -1, cnt = 0; for (int j = n - 1; j >= 0; --j) if (pn[j] == pn[i] && pt[j] == pt[i]) { first = j; ++cnt; }
         const ipr::Decl* m = nullptr; int out = vp_outcome([&] { m = &d[i]->master(); });
         vp_assert(out == 0 && m == d[first], 47);
         auto& ds = d[i]->decl_set();
         vp_assert(ds.size() == (std::size_t)cnt, 48);
         int pos = 0; for (int j = 0; j < n; ++j) if (pn[j] == pn[i] && pt[j] == pt[i]) { if ((std::size_t)pos < ds.size()) vp_assert(&at(ds, pos) == d[j], 49); ++pos; }
      }
   }
}
extern "C" void h_wide_overloads(void) {
   Wide* w = new Wide;
   unsigned pn[2 * Wide::NT + 2], pt[2 * Wide::NT + 2]; const ipr::Decl* d[2 * Wide::NT + 2]; int n = 0;
   unsigned P = vp_pick(Wide::NT + 1); bool descending = vp_flag();
   for (unsigned i = 0; i < P; ++i) {
      unsigned t = descending ? Wide::NT - 1 - i : i;
      pn[n] = 0; pt[n] = t; d[n] = w->declare(0, t); ++n;
      if (i % 2) { pn[n] = 0; pt[n] = t; d[n] = w->declare(0, t); ++n; }       // a redeclaration
   }
   wide_oracle(*w, pn, pt, d, n);
   for (int k = 0; k < 2; ++k) {
      pn[n] = vp_pick(2); pt[n] = vp_pick(Wide::NT); d[n] = w->declare(pn[n], pt[n]); ++n;
      wide_oracle(*w, pn, pt, d, n);
   }
   vp_done();
}
// many names in one scope: the per-scope table of overload sets is keyed on names of every kind (identifiers, operators, conversion,
// constructor, destructor, suffix names).  The name pool is created so that spelling order and address order disagree (identifiers
// interned in descending spelling order, other names in between).  (a) comparator lemma: the library's node_compare on (Overload, Name)
// is zero exactly for the same name, antisymmetric and transitive for three arbitrary names; (b) histories: a prefix of symbolic length
// of the pool in one of four orders, then two symbolic declarations; every name of the pool is looked up after the prefix and each step.
namespace {
   struct Names {
      enum { NN = C07_NAMES };
      impl::Lexicon lx; impl::Translation_unit unit { lx }; impl::Namespace* ns;
      const ipr::Name* N[NN]; const ipr::Type* T[2];
      Names() {
         ns = lx.make_namespace(*unit.global_region());
         static const char8_t* const ids[] = { u8"zeta", u8"yak", u8"xi", u8"wolf", u8"vim", u8"um", u8"tau", u8"sun", u8"rho", u8"quo" };
         static const char8_t* const ops[] = { u8"+", u8"()", u8"<=>", u8"new", u8"->" };
         const ipr::Type* conv[3] = { &lx.int_type(), &lx.get_pointer(lx.char_type()), &lx.bool_type() };
         for (int i = 0; i < NN; ++i) {
            switch (i % 4) {
            case 0: case 2: N[i] = &lx.get_identifier(ids[(i / 2) % 10]); break;
            case 1: N[i] = &lx.get_operator(ops[(i / 4) % 5]); break;
            default: N[i] = (i / 4) % 2 ? static_cast<const ipr::Name*>(&lx.get_conversion(*conv[(i / 8) % 3])) : static_cast<const ipr::Name*>(&lx.get_ctor_name(*conv[(i / 8) % 3])); break;
            }
         }
         T[0] = &lx.int_type(); T[1] = &lx.get_pointer(lx.char_type());
      }
   };
   inline int sgn(int x) { return x < 0 ? -1 : x > 0 ? 1 : 0; }
}
extern "C" void h_name_order_lemmas(void) {
   Names* w = new Names;
   unsigned a = vp_pick(Names::NN), b = vp_pick(Names::NN), c = vp_pick(Names::NN);
   impl::Overload oa(*w->N[a]), ob(*w->N[b]);
   impl::node_compare cmp;
   int ab = cmp(oa, *w->N[b]), ba = cmp(ob, *w->N[a]), bc = cmp(ob, *w->N[c]), ac = cmp(oa, *w->N[c]);
   vp_assert((ab == 0) == (a == b), 60);
   vp_assert(sgn(ab) == -sgn(ba), 61);
   vp_assert(!(ab < 0 && bc < 0) || ac < 0, 62);
   vp_assert(!(ab > 0 && bc > 0) || ac > 0, 63);
   vp_done();
}
extern "C" void h_many_names(void) {
   Names* w = new Names; const ipr::Scope& scope = w->ns->body.scope; auto& sc = w->ns->body.scope;
   unsigned P = vp_pick(Names::NN + 1), order = vp_pick(4);
   bool declared[Names::NN] = { }; const ipr::Decl* first[Names::NN] = { };
   auto declare = [&](unsigned n, unsigned t) { const ipr::Decl* d = sc.make_var(*w->N[n], *w->T[t]); if (!declared[n]) { declared[n] = true; } return d; };
   const ipr::Decl* firstdecl[Names::NN][2] = { };
   auto step = [&](unsigned n, unsigned t) { const ipr::Decl* d = declare(n, t); if (!firstdecl[n][t]) firstdecl[n][t] = d; };
   auto oracle = [&] {
      for (unsigned n = 0; n < Names::NN; ++n) {
         auto ovl = scope[*w->N[n]];
         vp_assert(ovl.is_valid() == declared[n], 64);
         if (ovl.is_valid()) for (unsigned t = 0; t < 2; ++t) { auto sel = ovl.get()[*w->T[t]]; vp_assert(sel.is_valid() == (firstdecl[n][t] != nullptr), 65); if (sel.is_valid() && firstdecl[n][t]) vp_assert(&sel.get() == firstdecl[n][t], 66); }
      }
   };
   for (unsigned i = 0; i < P; ++i) {
      unsigned n = order == 0 ? i : order == 1 ? Names::NN - 1 - i : order == 2 ? (i % 2 ? Names::NN - 1 - i / 2 : i / 2) : (i * 7) % Names::NN;
      step(n, i % 2);
   }
   oracle();
   for (int k = 0; k < 2; ++k) { unsigned n = vp_pick(Names::NN), t = vp_pick(2); step(n, t); oracle(); }
   vp_done();
}
// function declarations of one name whose types differ only in the exception specification and / or the transfer (extern "C" variants): four
// distinct types, C07_K symbolic declarations; each is grouped with the declarations of exactly its own type, whatever was declared before
extern "C" void h_function_variants(void) {
   World* w = new World; auto& lx = w->lx; auto& sc = w->ns->body.scope; const ipr::Scope& scope = sc;
   impl::Warehouse<ipr::Type> wh; wh.push_back(lx.int_type());
   const ipr::Product& P = lx.get_product(wh); auto& cxf = lx.get_transfer_from_linkage(lx.c_linkage());
   const ipr::Function* F[4] = { &lx.get_function(P, lx.bool_type()), &lx.get_function(P, lx.bool_type(), lx.true_value()), &lx.get_function(P, lx.bool_type(), cxf), &lx.get_function(P, lx.bool_type(), lx.true_value(), cxf) };
   unsigned pt[C07_K]; const ipr::Decl* d[C07_K];
   for (int k = 0; k < C07_K; ++k) {
      pt[k] = vp_pick(4); d[k] = sc.make_fundecl(*w->N[0], *F[pt[k]]);
      auto ovl = scope[*w->N[0]]; vp_assert(ovl.is_valid(), 80);
      for (int i = 0; i <= k; ++i) {
         vp_assert(&d[i]->type() == F[pt[i]], 81);
         int first = -1, cnt = 0; for (int j = k; j >= 0; --j) if (pt[j] == pt[i]) { first = j; ++cnt; }
         vp_assert(&d[i]->master() == d[first] && d[i]->decl_set().size() == (std::size_t)cnt, 82);
      }
      if (ovl.is_valid()) for (unsigned t = 0; t < 4; ++t) {
         int first = -1; for (int j = k; j >= 0; --j) if (pt[j] == t) first = j;
         auto sel = ovl.get()[*F[t]];
         vp_assert(sel.is_valid() == (first >= 0) && (first < 0 || &sel.get() == d[first]), 83);
      }
      auto prod = util::view<ipr::Product>(scope.type());
      vp_assert(prod && prod->size() == (std::size_t)(k + 1) && &(*prod)[k] == F[pt[k]], 84);
   }
   vp_done();
}
// a declaration that is refused leaves the scope as it was: an alias whose initializer has no type yet cannot be declared (logic_error);
// afterwards the name is still undeclared (no overload set, no member), and declaring it properly works as on a fresh scope
extern "C" void h_refused_declaration(void) {
   World* w = new World; auto& lx = w->lx;
   const ipr::Scope& scope = w->ns->body.scope; auto& sc = w->ns->body.scope;
   unsigned before = vp_pick(2);                                     // the scope is empty, or already holds another name
   if (before) sc.make_var(*w->N[1], *w->TY[1][1]);
   const ipr::Expr& untyped = *lx.make_id_expr(lx.get_identifier(u8"nowhere"));
   int out = vp_outcome([&] { sc.make_alias(*w->N[0], untyped); });
   vp_assert(out == 1, 70);                                          // refused with a logic_error
   vp_assert(!scope[*w->N[0]].is_valid() && scope.size() == before && scope.elements().size() == before, 71);
   const ipr::Decl* d = sc.make_alias(*w->N[0], *w->init[0][2]);
   auto ovl = scope[*w->N[0]];
   vp_assert(ovl.is_valid() && ovl.get()[d->type()].is_valid() && &ovl.get()[d->type()].get() == d && &d->master() == d && scope.size() == before + 1, 72);
   vp_done();
}
// parameter lists, enumerations, base lists, handler regions: singleton sets, positions equal to index
extern "C" void h_homogeneous(void) {
   World* w = new World; auto& lx = w->lx;
   unsigned n = vp_pick(4);
   impl::Mapping* m = lx.make_mapping(*w->unit.global_region(), Mapping_level{ 1 });
   impl::Enum* e = lx.make_enum(*w->unit.global_region(), ipr::Enum::Kind::Legacy);
   impl::Class* c = lx.make_class(*w->unit.global_region());
   const ipr::Type* T[3] = { &lx.int_type(), &lx.bool_type(), &lx.char_type() };
   const ipr::Name* EN[3] = { &lx.get_identifier(u8"p"), &lx.get_identifier(u8"q"), &lx.get_identifier(u8"r") };
   const ipr::Decl* P[3]; const ipr::Decl* E[3]; const ipr::Decl* B[3]; unsigned pt[3];
   for (unsigned i = 0; i < n; ++i) {
      pt[i] = vp_pick(3);
      P[i] = m->param(*EN[i], *T[pt[i]]); E[i] = e->add_member(*EN[i]); B[i] = c->declare_base(*T[i]);
   }
   const ipr::Scope& ps = m->parameters().region().bindings(); const ipr::Scope& es = e->scope(); const ipr::Scope& bs = static_cast<const ipr::Class&>(*c).bases().size() ? B[0]->home_region().bindings() : es;
   for (unsigned i = 0; i < n; ++i) {
      vp_assert(util::rep(static_cast<const ipr::Parameter*>(P[i])->position()) == i && util::rep(static_cast<const ipr::Enumerator*>(E[i])->position()) == i && util::rep(static_cast<const ipr::Base_type*>(B[i])->position()) == i, 20);
      const ipr::Decl* all[3] = { P[i], E[i], B[i] };
      for (auto d : all) {
         vp_assert(&d->master() == d, 21);
         vp_assert(d->decl_set().size() == 1 && &at(d->decl_set(), 0) == d, 22);
      }
      vp_assert(&at(ps.elements(), i) == P[i] && &at(es.elements(), i) == E[i] && &at(bs.elements(), i) == B[i], 23);
      vp_assert(&P[i]->name() == EN[i] && &P[i]->type() == T[pt[i]] && &E[i]->name() == EN[i] && &E[i]->type() == e && &B[i]->type() == T[i] && &B[i]->name() == &T[i]->name(), 24);
      auto ovl = ps[*EN[i]];
      vp_assert(ovl.is_valid() && ovl.get()[*T[pt[i]]].is_valid() && &ovl.get()[*T[pt[i]]].get() == P[i], 25);
      vp_assert(!ovl.get()[*T[(pt[i] + 1) % 3]].is_valid(), 26);
      auto eo = es[*EN[i]];
      vp_assert(eo.is_valid() && &eo.get()[*e].get() == E[i], 27);
      auto pprod = util::view<ipr::Product>(ps.type());
      vp_assert(pprod && pprod->size() == n && &(*pprod)[i] == T[pt[i]], 28);
   }
   for (unsigned i = n; i < 3; ++i) vp_assert(!ps[*EN[i]].is_valid() && !es[*EN[i]].is_valid(), 29);
   vp_assert(ps.size() == n && es.size() == n, 30);
   // handler region: binds exactly the exception parameter
   impl::Block* b = lx.make_block(*w->unit.global_region());
   impl::Handler* h = b->new_handler(*EN[0], *T[1]);
   const ipr::Handler& ch = *h; const ipr::Scope& hs = ch.body().region().enclosing().bindings();
   vp_assert(hs.size() == 1 && &at(hs.elements(), 0) == &ch.exception() && &ch.exception().master() == &ch.exception(), 31);
   vp_assert(hs[*EN[0]].is_valid() && &hs[*EN[0]].get()[*T[1]].get() == &ch.exception() && !hs[*EN[1]].is_valid(), 32);
   vp_done();
}
