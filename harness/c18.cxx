// C18 — printing terminates and leaves the stream and the printer as it found them.
#define VP_WITH_IO
#include "zoo.h"
#include "vpstream.h"
#include <type_traits>
#ifndef C18_L
#define C18_L 3
#endif
#ifndef C18_DEPTH
#define C18_DEPTH 16
#endif
namespace {
   struct Stream_state { std::ios_base::fmtflags flags; std::streamsize width, precision; char fill; };
   Stream_state state_of(std::ostream& os) { return { os.flags(), os.width(), os.precision(), os.fill() }; }
   bool same_state(const Stream_state& a, const Stream_state& b) { return a.flags == b.flags && a.width == b.width && a.precision == b.precision && a.fill == b.fill; }

   // print `what` with a fresh printer on a fresh stream; outcome 0 = completed, 1 = logic_error (unsupported construct)
   template<class F> void print_and_check(const ipr::Lexicon& lx, F what, bool spellings_printable) {
      std::ostringstream& os = *new std::ostringstream;      // never destroyed (the inlined libstdc++ destructor needs the VTT)
      Printer pp { lx, os };
      Stream_state before = state_of(os); int indent0 = pp.indent();
      int out = vp_outcome([&] { what(pp); });
      vp_assert(out != 2, 1);                                 // completes, or logic_error for an unsupported construct
      vp_assert(same_state(before, state_of(os)), 2);         // formatting flags / width / precision / fill untouched
      if (out == 0) {
         vp_assert(pp.indent() == indent0, 3);                // indentation back where it started
         if (spellings_printable) vp_assert(vp_stream_ctrl(&os) == 0, 4);      // no NUL / control byte other than newline
      }
   }
   struct Print_every_role {
      const ipr::Lexicon* lx; int printed = 0;
      void generative() { }
      template<class I> void node(const I& n) {
         if constexpr (std::is_base_of_v<ipr::Expr, I>) {
            const ipr::Expr& e = n; ++printed;
            print_and_check(*lx, [&](Printer& pp) { pp << xpr_expr(e); }, true);
            print_and_check(*lx, [&](Printer& pp) { pp << xpr_stmt(e); }, true);
            print_and_check(*lx, [&](Printer& pp) { pp << xpr_decl(e); }, true);
            if constexpr (std::is_base_of_v<ipr::Type, I>) print_and_check(*lx, [&](Printer& pp) { pp << xpr_type(static_cast<const ipr::Type&>(n)); }, true);
         }
      }
      void operands(bool) { }
      template<class N> void typed(const N&, const ipr::Type*) { }
   };
}
// every node kind offered to the printer as expression, statement, declaration (and type)
extern "C" void h_kinds(void) {
   unsigned total = zoo::count();
   zoo::World* w = new zoo::World;
   unsigned which = vp_pick(total);
   vp_observe(1, which);
   w->concrete = true;                       // operand choice does not matter to the printer's dispatch; the kind does
   Print_every_role v; v.lx = &w->lx;
   zoo::build(*w, which, v);
   vp_done();
}
// literal spelling over all byte values, then a located declaration: every number decimal from first to last byte
extern "C" void h_literal(void) {
   impl::Lexicon* lx = new impl::Lexicon; impl::Translation_unit* unit = new impl::Translation_unit(*lx);
   Word<C18_L> w; w.make(1); vp_not_reserved_range(w.buf[0]);     // first byte: the 182 values outside ['.','w'] (includes every control byte); other bytes: all 256 values
   impl::Var* v1 = unit->global_scope()->make_var(lx->get_identifier(u8"a"), lx->int_type()); v1->init = lx->make_literal(lx->int_type(), w.view());
   impl::Var* v2 = unit->global_scope()->make_var(lx->get_identifier(u8"b"), lx->int_type());
   v2->src_locus.file = File_index{ 9 }; v2->src_locus.line = Line_number{ 10 }; v2->src_locus.column = Column_number{ 20 };
   std::ostringstream& os = *new std::ostringstream; Printer pp { *lx, os }; pp.print_locations = true;
   Stream_state before = state_of(os);
   int out = vp_outcome([&] { pp << *unit; });
   vp_assert(out == 0, 10);
   vp_assert(same_state(before, state_of(os)), 11);
   vp_assert(vp_stream_contains(&os, "F9:10:20 b"), 12);       // decimal, not "F11:12:24"
   vp_assert(pp.indent() == 0, 13);
   vp_done();
}
// every delimiter kind, nested up to three deep
extern "C" void h_enclosure(void) {
   impl::Lexicon* lx = new impl::Lexicon;
   const ipr::Expr* e = lx->make_id_expr(lx->get_identifier(u8"x"));
   unsigned depth = 1 + vp_pick(3);
   for (unsigned i = 0; i < depth; ++i) e = lx->make_enclosure(ipr::Delimiter(vp_pick(5)), *e);
   print_and_check(*lx, [&](Printer& pp) { pp << xpr_expr(*e); }, true);
   vp_done();
}
// statement nesting: indentation is back where it started after each complete statement
extern "C" void h_indentation(void) {
   zoo::World* w = new zoo::World; auto& lx = w->lx; w->concrete = true;
   unsigned depth = 1 + vp_pick(3);
   const ipr::Expr* body = lx.make_expr_stmt(*lx.make_id_expr(*w->I[0]));
   for (unsigned i = 0; i < depth; ++i) {
      unsigned kind = vp_pick(10);
      switch (kind) {
      case 0: { impl::Block* b = lx.make_block(*w->reg); b->add_stmt(*body); b->add_stmt(*lx.make_return(*w->E[0])); body = b; break; }
      case 1: body = lx.make_if(*w->E[0], *body); break;
      case 2: body = lx.make_if(*w->E[0], *body, *lx.make_expr_stmt(*w->E[1])); break;
      case 3: { impl::While* x = lx.make_while(); x->control = w->E[0]; x->stmt = body; body = x; break; }
      case 4: { impl::Do* x = lx.make_do(); x->control = w->E[0]; x->stmt = body; body = x; break; }
      case 5: { impl::Switch* x = lx.make_switch(); x->control = w->E[0]; x->stmt = body; body = x; break; }
      case 6: body = lx.make_labeled_stmt(lx.get_label(*w->I[1]), *body); break;
      case 8: body = lx.make_if(*w->E[0], *lx.make_expr_stmt(*w->E[1]), *body); break;             // nested statement in the else branch (else-if chains)
      case 9: { impl::For* x = lx.make_for(); x->init = w->E[0]; x->cond = w->E[1]; x->inc = w->E[0]; x->stmt = static_cast<const ipr::Stmt*>(lx.make_expr_stmt(*w->E[1])); impl::Block* b = lx.make_block(*w->reg); b->add_stmt(*x); b->add_stmt(*body); body = b; break; }
      case 7: { impl::Block* b = lx.make_block(*w->reg); b->add_stmt(*body); impl::Handler* h = b->new_handler(*w->I[1], *w->T[0]); h->body().add_stmt(*lx.make_expr_stmt(*w->E[1])); body = b; break; }
      }
   }
   print_and_check(lx, [&](Printer& pp) { pp << xpr_stmt(*body); }, true);
   // inside a function definition and a class
   impl::Class* c = lx.make_class(*w->reg); c->id = w->I[0]; c->declare_field(*w->I[1], *w->T[0]);
   print_and_check(lx, [&](Printer& pp) { pp << xpr_decl(*w->reg->declare_type(*w->I[0], *c), true); }, true);
   vp_done();
}
// deep nesting: statements nested to a symbolic depth 0..C18_DEPTH (kinds rotate through block, if, while, for-in-block, switch, try block
// with handler, else-branch; the rotation starts at a symbolic phase), inside a function body inside a class: whatever the indentation
// reached, no control byte is written, the stream state is untouched and the indentation returns to where it started
extern "C" void h_deep_nesting(void) {
   zoo::World* w = new zoo::World; auto& lx = w->lx; w->concrete = true;
   unsigned depth = vp_pick(C18_DEPTH + 1), phase = vp_pick(7);
   const ipr::Expr* body = lx.make_expr_stmt(*lx.make_id_expr(*w->I[0]));
   for (unsigned i = 0; i < depth; ++i) {
      switch ((i + phase) % 7) {
      case 0: { impl::Block* b = lx.make_block(*w->reg); b->add_stmt(*body); b->add_stmt(*lx.make_return(*w->E[0])); body = b; break; }
      case 1: body = lx.make_if(*w->E[0], *body); break;
      case 2: { impl::While* x = lx.make_while(); x->control = w->E[0]; x->stmt = body; body = x; break; }
      case 3: { impl::For* x = lx.make_for(); x->init = w->E[0]; x->cond = w->E[1]; x->inc = w->E[0]; x->stmt = static_cast<const ipr::Stmt*>(lx.make_expr_stmt(*w->E[1])); impl::Block* b = lx.make_block(*w->reg); b->add_stmt(*x); b->add_stmt(*body); body = b; break; }
      case 4: { impl::Switch* x = lx.make_switch(); x->control = w->E[0]; x->stmt = body; body = x; break; }
      case 5: { impl::Block* b = lx.make_block(*w->reg); b->add_stmt(*body); impl::Handler* h = b->new_handler(*w->I[1], *w->T[0]); h->body().add_stmt(*lx.make_expr_stmt(*w->E[1])); body = b; break; }
      default: body = lx.make_if(*w->E[0], *lx.make_expr_stmt(*w->E[1]), *body); break;
      }
   }
   print_and_check(lx, [&](Printer& pp) { pp << xpr_stmt(*body); }, true);
   vp_done();
}
// constructs the printer supports must complete, not be reported as unsupported: named user-defined types (class, union, enum, namespace)
// in operand position (callee, member selection, comparison), as statement and as declaration; a built-in and a pointer type likewise
extern "C" void h_supported(void) {
   zoo::World* w = new zoo::World; auto& lx = w->lx; w->concrete = true;
   unsigned kind = vp_pick(6), role = vp_pick(5);
   impl::Class* c = lx.make_class(*w->reg); c->id = w->I[0]; impl::Union* u = lx.make_union(*w->reg); u->id = w->I[0];
   impl::Enum* e = lx.make_enum(*w->reg, ipr::Enum::Kind::Scoped); e->id = w->I[0]; impl::Namespace* ns = lx.make_namespace(*w->reg); ns->id = w->I[0];
   const ipr::Expr* ty[6] = { c, u, e, ns, &lx.int_type(), &lx.get_pointer(lx.char_type()) };
   const ipr::Expr& t = *ty[kind]; const ipr::Expr& x = *lx.make_id_expr(*w->I[1]);
   impl::Expr_list* args = lx.make_expr_list(); args->push_back(w->E[1]);
   const ipr::Expr* what = role == 0 ? static_cast<const ipr::Expr*>(lx.make_call(t, *args)) : role == 1 ? static_cast<const ipr::Expr*>(lx.make_dot(x, t))
                         : role == 2 ? static_cast<const ipr::Expr*>(lx.make_equal(t, t)) : &t;
   std::ostringstream& os = *new std::ostringstream; Printer pp { lx, os };
   int out = vp_outcome([&] { if (role == 3) pp << xpr_stmt(*what); else if (role == 4) pp << xpr_decl(*what); else pp << xpr_expr(*what); });
   vp_assert(out == 0, 20);                                       // completes
   vp_assert(vp_stream_ctrl(&os) == 0 && vp_stream_size(&os) > 0 && pp.indent() == 0, 21);
   vp_done();
}
// numbers at the digit-count boundaries of their type: file, line and column of a location picked among 1, 999999999, 1000000000 and the
// largest 32-bit value; each is written in decimal, in full, with no stray byte
extern "C" void h_number_boundaries(void) {
   impl::Lexicon* lx = new impl::Lexicon; impl::Translation_unit* unit = new impl::Translation_unit(*lx);
   static const uint32_t vals[4] = { 1u, 999999999u, 1000000000u, 4294967295u };
   static const char* const text[4] = { "1", "999999999", "1000000000", "4294967295" };
   unsigned f = vp_pick(4), l = vp_pick(4), c = vp_pick(4);
   impl::Var* v = unit->global_scope()->make_var(lx->get_identifier(u8"b"), lx->int_type());
   v->src_locus.file = File_index{ vals[f] }; v->src_locus.line = Line_number{ vals[l] }; v->src_locus.column = Column_number{ vals[c] };
   std::ostringstream& os = *new std::ostringstream; Printer pp { *lx, os }; pp.print_locations = true;
   Stream_state before = state_of(os);
   int out = vp_outcome([&] { pp << *unit; });
   vp_assert(out == 0 && same_state(before, state_of(os)), 30);
   char needle[48]; int n = 0; needle[n++] = 'F';
   for (const char* p = text[f]; *p; ++p) needle[n++] = *p; needle[n++] = ':';
   for (const char* p = text[l]; *p; ++p) needle[n++] = *p; needle[n++] = ':';
   for (const char* p = text[c]; *p; ++p) needle[n++] = *p; needle[n++] = ' '; needle[n++] = 'b'; needle[n] = 0;
   vp_assert(vp_stream_contains(&os, needle), 31);
   vp_assert(vp_stream_ctrl(&os) == 0 && pp.indent() == 0, 32);
   vp_done();
}
