// C15 — derived interface operations agree with the primitives they are defined from.
#include "common.h"
namespace {
   template<class T> struct Peek : ipr::Sequence<T> { using ipr::Sequence<T>::get; };
   template<class T> const T& prim_get(const ipr::Sequence<T>& s, std::size_t i) { return (s.*&Peek<T>::get)(i); }

   // every derived Sequence operation against size()/get(); ids base+0..9 ; n = expected size
   template<class T> void check_seq(const ipr::Sequence<T>& s, std::size_t n, int base) {
      vp_assert(s.size() == n, base + 0);
      vp_assert(s.empty() == (s.size() == 0), base + 1);
      vp_assert(s.begin() == s.position(0), base + 2);
      vp_assert(s.end() == s.position(s.size()), base + 2);
      vp_assert((s.begin() == s.end()) == (n == 0), base + 3);
      vp_assert((s.begin() != s.end()) == (n != 0), base + 3);
      auto it = s.begin(); std::size_t k = 0;
      for (; it != s.end(); ++it, ++k) {
         if (k >= n) break;
         vp_assert(&*it == &prim_get(s, k), base + 4);
         vp_assert(it.operator->() == &prim_get(s, k), base + 4);
         vp_assert(it == s.position(k), base + 5);
      }
      vp_assert(k == n && it == s.end(), base + 6);
      // backwards with -- and the postfix forms
      for (std::size_t j = n; j > 0; --j) {
         auto old = it--;
         vp_assert(old == s.position(j), base + 7);
         vp_assert(&*it == &prim_get(s, j - 1), base + 7);
      }
      vp_assert(it == s.begin(), base + 8);
      if (n > 0) { auto a = it++; vp_assert(a == s.begin() && it == s.position(1), base + 9); --it; auto& r = --(++it); vp_assert(&r == &it && it == s.begin(), base + 9); }
   }

   struct World {
      impl::Lexicon lx;
      impl::Translation_unit unit { lx };
      const ipr::Type* T[3];
      const ipr::Name* N[3];
      World() {
         T[0] = &lx.int_type(); T[1] = &lx.bool_type(); T[2] = &lx.get_pointer(lx.char_type());
         N[0] = &lx.get_identifier(u8"a"); N[1] = &lx.get_identifier(u8"b"); N[2] = &lx.get_identifier(u8"c");
      }
   };
}

// sequences of every implementation, sizes 0..3
extern "C" void h_sequences(void) {
   World* w = new World; auto& lx = w->lx;
   unsigned n = vp_pick(4);
   // ref_sequence (warehouse copy inside a product), typed through Product/Sum helpers
   impl::Warehouse<ipr::Type> wh; for (unsigned i = 0; i < n; ++i) wh.push_back(*w->T[i % 3]);
   const ipr::Product& p = lx.get_product(wh);
   check_seq(p.elements(), n, 100);
   vp_assert(p.size() == p.elements().size(), 1);
   for (unsigned i = 0; i < n; ++i) vp_assert(&p[i] == &prim_get(p.elements(), i) && &p[i] == w->T[i % 3], 2);
   const ipr::Sum& s = lx.get_sum(wh);
   vp_assert(s.size() == s.elements().size() && s.size() == n, 3);
   for (unsigned i = 0; i < n; ++i) vp_assert(&s[i] == &prim_get(s.elements(), i), 4);
   // obj_sequence (deque): enumerators ; homogeneous scope + typed_sequence
   impl::Enum* e = lx.make_enum(*w->unit.global_region(), ipr::Enum::Kind::Scoped);
   for (unsigned i = 0; i < n; ++i) e->add_member(*w->N[i % 3]);
   check_seq(e->members(), n, 200);
   const ipr::Scope& es = e->scope();
   vp_assert(&es == &e->region().bindings(), 5);
   check_seq(es.elements(), n, 300);
   vp_assert(es.size() == es.elements().size(), 6);
   vp_assert(es.begin() == es.elements().begin() && es.end() == es.elements().end(), 7);
   check_seq(static_cast<const ipr::Product&>(es.type()).elements(), n, 400);
   // obj_list: parameters
   impl::Mapping* m = lx.make_mapping(*w->unit.global_region(), Mapping_level{ 1 });
   for (unsigned i = 0; i < n; ++i) m->param(*w->N[i % 3], *w->T[i % 3]);
   const ipr::Parameter_list& pl = m->parameters();
   check_seq(pl.elements(), n, 500);
   vp_assert(pl.size() == pl.elements().size(), 8);
   vp_assert(pl.begin() == pl.elements().begin() && pl.end() == pl.elements().end(), 9);
   check_seq(pl.type().elements(), n, 600);
   // Expr_list
   impl::Expr_list* xl = lx.make_expr_list();
   for (unsigned i = 0; i < n; ++i) xl->push_back(i % 2 ? &lx.true_value() : &lx.false_value());
   const ipr::Expr_list& cxl = *xl;
   vp_assert(cxl.size() == cxl.elements().size() && cxl.size() == n, 10);
   check_seq(cxl.elements(), n, 700);
   check_seq(static_cast<const ipr::Product&>(cxl.type()).elements(), n, 800);
   // heterogeneous scope
   impl::Namespace* ns = lx.make_namespace(*w->unit.global_region());
   for (unsigned i = 0; i < n; ++i) ns->declare_var(*w->N[i % 3], *w->T[i % 3]);
   const ipr::Namespace& cns = *ns;
   vp_assert(&cns.scope() == &cns.region().bindings(), 11);
   vp_assert(&cns.members() == &cns.scope().elements(), 12);
   check_seq(cns.members(), n, 900);
   vp_assert(cns.scope().size() == n, 13);
   vp_assert(cns.scope().begin() == cns.scope().elements().begin() && cns.scope().end() == cns.scope().elements().end(), 14);
   // class / union members, bases
   impl::Class* c = lx.make_class(*w->unit.global_region());
   for (unsigned i = 0; i < n; ++i) { c->declare_field(*w->N[i % 3], *w->T[i % 3]); c->declare_base(*w->T[i % 3]); }
   const ipr::Class& cc = *c;
   vp_assert(&cc.scope() == &cc.region().bindings() && &cc.members() == &cc.scope().elements(), 15);
   check_seq(cc.members(), n, 1000);
   check_seq(cc.bases(), n, 1100);
   impl::Union* u = lx.make_union(*w->unit.global_region());
   const ipr::Union& cu = *u;
   vp_assert(&cu.scope() == &cu.region().bindings() && &cu.members() == &cu.scope().elements(), 16);
   check_seq(cu.members(), 0, 1200);
   vp_done();
}

// singleton and empty sequences
extern "C" void h_small_sequences(void) {
   World* w = new World; auto& lx = w->lx;
   impl::Block* b = lx.make_block(*w->unit.global_region());
   impl::Handler* h = b->new_handler(*w->N[0], *w->T[0]);
   const ipr::Handler& ch = *h;
   check_seq(ch.body().handlers(), 0, 100);                                        // empty_sequence
   check_seq(ch.exception().decl_set(), 1, 200);                                   // singleton_ref
   check_seq(ch.body().region().enclosing().bindings().elements(), 1, 300);         // homogeneous scope over singleton_obj
   auto& sr = *lx.make_scope_ref(lx.true_value(), lx.false_value());
   impl::single_using_declaration* ud = lx.make_using_declaration(sr, ipr::Using_declaration::Designator::Mode::Type);
   check_seq(static_cast<const ipr::Using_declaration&>(*ud).designators(), 1, 400);   // singleton_obj
   vp_done();
}

// Block::body / try_block with 0, 1, 2 handlers
extern "C" void h_block(void) {
   World* w = new World; auto& lx = w->lx;
   unsigned nh = vp_pick(3), ns = vp_pick(3);
   impl::Block* b = lx.make_block(*w->unit.global_region());
   for (unsigned i = 0; i < ns; ++i) b->add_stmt(*lx.make_expr_stmt(lx.true_value()));
   for (unsigned i = 0; i < nh; ++i) b->new_handler(*w->N[i], *w->T[i]);
   const ipr::Block& cb = *b;
   vp_assert(&cb.body() == &cb.region().body(), 1);
   vp_assert(cb.body().size() == ns, 2);
   vp_assert(cb.handlers().size() == nh, 3);
   vp_assert(cb.try_block() == (cb.handlers().size() > 0), 4);                      // true exactly when it has handlers
   for (unsigned i = 0; i < nh; ++i) vp_assert(!prim_get(cb.handlers(), i).body().try_block(), 5);   // handler bodies have no handlers
   vp_done();
}

// Template::parameters/result, Parameter::default_value, Type::linkage
extern "C" void h_misc(void) {
   World* w = new World; auto& lx = w->lx;
   impl::Mapping* m = lx.make_mapping(*w->unit.global_region(), Mapping_level{ 1 });
   impl::Parameter* p0 = m->param(*w->N[0], *w->T[0]);
   impl::Parameter* p1 = m->param(*w->N[1], *w->T[1]);
   bool with_default = vp_flag();
   if (with_default) p1->init = &lx.true_value();
   m->body = &lx.false_value();
   const ipr::Parameter& cp0 = *p0; const ipr::Parameter& cp1 = *p1;
   vp_assert(cp0.default_value().is_valid() == cp0.initializer().is_valid() && !cp0.default_value().is_valid(), 1);
   vp_assert(cp1.default_value().is_valid() == with_default, 2);
   if (with_default) vp_assert(&cp1.default_value().get() == &cp1.initializer().get() && &cp1.default_value().get() == &lx.true_value(), 3);
   impl::Warehouse<ipr::Type> wh; wh.push_back(*w->T[0]); wh.push_back(*w->T[1]);
   auto& forall = lx.get_forall(lx.get_product(wh), lx.bool_type());
   impl::Template* t = w->unit.global_scope()->make_primary_template(*w->N[2], forall);
   t->init = m;
   const ipr::Template& ct = *t;
   vp_assert(&ct.parameters() == &ct.mapping().parameters() && &ct.parameters() == &static_cast<const ipr::Mapping&>(*m).parameters(), 4);
   vp_assert(&ct.result() == &ct.mapping().result() && &ct.result() == &lx.false_value(), 5);
   {  // the same on a redeclaration (its own mapping, other parameter names), on a secondary template, and on a template declared after another one
      impl::Mapping* m2 = lx.make_mapping(*w->unit.global_region(), Mapping_level{ 1 });
      m2->param(*w->N[1], *w->T[0]); m2->param(*w->N[0], *w->T[1]); m2->body = &lx.true_value();
      unsigned how = vp_pick(3);
      impl::Template* t2 = how == 0 ? w->unit.global_scope()->make_primary_template(*w->N[2], forall)         // redeclaration of t
                         : how == 1 ? w->unit.global_scope()->make_secondary_template(*w->N[2], forall)
                         : w->unit.global_scope()->make_primary_template(*w->N[0], forall);                    // an unrelated template
      t2->init = m2;
      const ipr::Template& c2 = *t2;
      vp_assert(&c2.parameters() == &c2.mapping().parameters() && &c2.parameters() == &static_cast<const ipr::Mapping&>(*m2).parameters(), 10);
      vp_assert(&c2.result() == &c2.mapping().result() && &c2.result() == &lx.true_value(), 11);
      vp_assert(&ct.parameters() == &static_cast<const ipr::Mapping&>(*m).parameters() && &ct.result() == &lx.false_value(), 12);      // and the first one is as it was
   }
   // linkage vs transfer: natural, explicit linkage, explicit convention
   Word<2> lw; lw.make(1); vp_not_reserved_range(lw.buf[0]);
   auto& lk = lx.get_linkage(lw.view());
   auto& xf = lx.get_transfer_from_linkage(lk);
   auto& f = lx.get_function(lx.get_product(wh), lx.int_type(), xf);
   vp_assert(&f.linkage() == &f.transfer().linkage(), 6);
   vp_assert(f.linkage() == lk, 7);
   vp_assert(&lx.int_type().linkage() == &lx.int_type().transfer().linkage() && lx.int_type().linkage() == lx.cxx_linkage(), 8);
   auto& at = lx.get_as_type(lx.true_value(), xf);
   vp_assert(&at.linkage() == &at.transfer().linkage() && at.linkage() == lk, 9);
   vp_done();
}

// equality on logograms, conventions, linkages, transfers, basic specifiers/qualifiers, strings
extern "C" void h_equalities(void) {
   // Two symbolic spellings: "== holds exactly for equal spellings" for every pair; reflexivity, symmetry and transitivity
   // of == then follow from those of spelling equality (each value below is compared in both argument orders and with itself).
   World* w = new World; auto& lx = w->lx;
   Word<2> W[2]; W[0].make(1); W[1].make(1);
   vp_not_reserved_range(W[0].buf[0]); vp_not_reserved_range(W[1].buf[0]);
   bool ab = W[0].same(W[1]);
   const ipr::String* S[2] = { &lx.get_string(W[0].view()), &lx.get_string(W[1].view()) };
   const ipr::Logogram* G[2]; const ipr::Linkage* K[2]; const ipr::Calling_convention* C[2];
   for (int i = 0; i < 2; ++i) { G[i] = &lx.get_logogram(*S[i]); K[i] = &lx.get_linkage(*S[i]); C[i] = &lx.get_calling_convention(S[i]->characters()); }
   for (int i = 0; i < 2; ++i) for (int j = 0; j < 2; ++j) {
      bool same = i == j || ab;
      vp_assert((*S[i] == *S[j]) == same && (*S[i] != *S[j]) == !same, 1);
      vp_assert((*G[i] == *G[j]) == same && (*G[i] != *G[j]) == !same, 2);
      vp_assert((*K[i] == *K[j]) == same && (*K[i] != *K[j]) == !same, 3);
      vp_assert((*C[i] == *C[j]) == same && (*C[i] != *C[j]) == !same, 4);
      ipr::Basic_specifier si { *G[i] }, sj { *G[j] }; ipr::Basic_qualifier qi { *G[i] }, qj { *G[j] };
      vp_assert((si == sj) == same && (si != sj) == !same, 5);
      vp_assert((qi == qj) == same && (qi != qj) == !same, 6);
   }
   // transfers: (linkage 0, convention 1) vs (linkage 1, convention 0), and a transfer vs itself / a second request for it
   auto& t1 = lx.get_transfer(*K[0], *C[1]); auto& t2 = lx.get_transfer(*K[1], *C[0]); auto& t3 = lx.get_transfer(*K[0], *C[1]);
   vp_assert((t1 == t2) == ab && (t1 != t2) == !ab && (t2 == t1) == ab, 7);
   vp_assert(t1 == t3 && !(t1 != t3) && t1 == t1, 8);
   vp_assert(t1 != lx.int_type().transfer(), 9);      // non-empty spellings other than C++: never the natural transfer
   vp_done();
}

// linkages / conventions against the standard constants, unrestricted symbolic word (covers the reserved-word routes)
extern "C" void h_std_equalities(void) {
   World* w = new World; auto& lx = w->lx;
   Word<3> a; a.make();
   bool isC = a.len == 1 && a.buf[0] == u8'C';
   bool isCxx = a.len == 3 && a.buf[0] == u8'C' && a.buf[1] == u8'+' && a.buf[2] == u8'+';
   auto& k = lx.get_linkage(a.view());
   vp_assert((k == lx.c_linkage()) == isC && (k != lx.c_linkage()) == !isC, 1);
   vp_assert((k == lx.cxx_linkage()) == isCxx, 2);
   auto& cc = lx.get_calling_convention(a.view());
   auto& natural = lx.int_type().transfer().convention();
   vp_assert((cc == natural) == (a.len == 0), 3);
   auto& t = lx.get_transfer(k, cc);
   vp_assert(!(t == lx.int_type().transfer()), 4);                       // linkage and convention carry the same non-trivial spelling here: never natural
   auto& t2 = lx.get_transfer(k, natural);
   vp_assert((t2 == lx.int_type().transfer()) == isCxx && (t2 != lx.int_type().transfer()) == !isCxx, 5);
   // the empty convention requested by spelling is spelled like the natural one: every transfer built from it equals the one built from the natural convention
   auto& cc0 = lx.get_calling_convention(u8""); auto& t3 = lx.get_transfer(k, cc0);
   vp_assert(cc0 == natural && t3 == t2 && t2 == t3 && !(t3 != t2), 6);
   vp_assert((t3 == lx.int_type().transfer()) == isCxx, 7);
   auto& t4 = lx.get_transfer_from_linkage(k); auto& t5 = lx.get_transfer_from_convention(cc);
   vp_assert(t4 == t2 && t4 == t3, 8);
   vp_assert((t5 == lx.int_type().transfer()) == (a.len == 0) && (t5 == t) == isCxx, 9);
   vp_done();
}

// growing sequences: every derived operation is re-evaluated on the same sequence object after each explicit addition (0 -> 1 -> 2 -> 3
// members), with the operations of the previous size already evaluated (nothing may be remembered about an earlier size)
extern "C" void h_growing_sequences(void) {
   World* w = new World; auto& lx = w->lx;
   unsigned kind = vp_pick(8);
   impl::Enum* e = lx.make_enum(*w->unit.global_region(), ipr::Enum::Kind::Scoped); impl::Mapping* m = lx.make_mapping(*w->unit.global_region(), Mapping_level{ 1 });
   impl::Class* c = lx.make_class(*w->unit.global_region()); impl::Block* b = lx.make_block(*w->unit.global_region()); impl::Namespace* ns = lx.make_namespace(*w->unit.global_region());
   impl::Expr_list* xl = lx.make_expr_list(); impl::Warehouse<ipr::Type>* wh = new impl::Warehouse<ipr::Type>;
   for (unsigned n = 0; n <= 3; ++n) {
      if (n > 0) switch (kind) {
         case 0: e->add_member(*w->N[n - 1]); break;
         case 1: m->param(*w->N[n - 1], *w->T[n - 1]); break;
         case 2: c->declare_base(*w->T[n - 1]); break;
         case 3: b->new_handler(*w->N[n - 1], *w->T[n - 1]); break;
         case 4: ns->declare_var(*w->N[n - 1], *w->T[n - 1]); break;
         case 5: xl->push_back(lx.make_id_expr(*w->N[n - 1])); break;
         case 6: c->declare_field(*w->N[n - 1], *w->T[n - 1]); break;
         default: wh->push_back(*w->T[n - 1]); break;
      }
      switch (kind) {
         case 0: check_seq(static_cast<const ipr::Enum&>(*e).members(), n, 500); check_seq(static_cast<const ipr::Enum&>(*e).scope().elements(), n, 510); break;
         case 1: check_seq(m->parameters().elements(), n, 520); { const ipr::Parameter_list& pl = m->parameters(); vp_assert(pl.size() == n && (pl.begin() == pl.end()) == (n == 0) && pl.end() == pl.elements().position(n), 530); } break;
         case 2: check_seq(static_cast<const ipr::Class&>(*c).bases(), n, 540); break;
         case 3: check_seq(static_cast<const ipr::Block&>(*b).handlers(), n, 550); vp_assert(static_cast<const ipr::Block&>(*b).try_block() == (n != 0), 560); break;
         case 4: { const ipr::Scope& sc = ns->body.scope; check_seq(sc.elements(), n, 570); vp_assert(sc.size() == n && (sc.begin() == sc.end()) == (n == 0) && sc.end() == sc.elements().position(n), 580);
                   check_seq(static_cast<const ipr::Namespace&>(*ns).members(), n, 590); break; }
         case 5: check_seq(static_cast<const ipr::Expr_list&>(*xl).elements(), n, 600); vp_assert(static_cast<const ipr::Expr_list&>(*xl).size() == n, 610); break;
         case 6: check_seq(static_cast<const ipr::Class&>(*c).members(), n, 620); break;
         default: check_seq(wh->rep(), n, 630); break;
      }
   }
   vp_done();
}

// equality on basic specifiers / qualifiers for the standard names: the value rebuilt from the spelling (through get_logogram) equals the
// one the Lexicon decomposes its own set into, and differs from every other name's
extern "C" void h_basic_names(void) {
   World* w = new World; auto& lx = w->lx; const ipr::Lexicon& cl = lx;
   static const char8_t* const spec_names[18] = { u8"=0", u8"export", u8"public", u8"protected", u8"private", u8"consteval", u8"constexpr", u8"constinit", u8"explicit",
      u8"extern", u8"friend", u8"inline", u8"mutable", u8"register", u8"static", u8"thread_local", u8"typedef", u8"virtual" };
   static const char8_t* const qual_names[3] = { u8"const", u8"volatile", u8"restrict" };
   unsigned i = vp_pick(18), j = vp_pick(18);
   ipr::Basic_specifier si { lx.get_logogram(lx.get_string(spec_names[i])) }, sj { lx.get_logogram(lx.get_string(spec_names[j])) };
   vp_assert((si == sj) == (i == j) && (si != sj) == (i != j), 700);
   auto d = cl.decompose(cl.specifiers(si));
   vp_assert(d.size() == 1 && d[0] == si && (d[0] == sj) == (i == j) && d[0].logogram() == si.logogram(), 701);
   unsigned a = vp_pick(3), b = vp_pick(3);
   ipr::Basic_qualifier qa { lx.get_logogram(lx.get_string(qual_names[a])) }, qb { lx.get_logogram(lx.get_string(qual_names[b])) };
   vp_assert((qa == qb) == (a == b), 702);
   auto dq = cl.decompose(cl.qualifiers(qa));
   vp_assert(dq.size() == 1 && dq[0] == qa && (dq[0] == qb) == (a == b), 703);
   vp_done();
}
