// C12 — regions form a tree rooted at the global region; owners and positions are right.
#include "common.h"
#ifndef C12_K
#define C12_K 3
#endif
namespace {
   enum Construct { KSub, KClass, KUnion, KEnum, KNamespace, KClosure, KBlock, KHandler, KMapping, KLambda, KWhere, KRequires, KMorphism, NCONSTRUCT };
   struct Made { const ipr::Region* r; impl::Region* ir; const ipr::Region* parent; const ipr::Expr* owner; bool owner_known; unsigned depth; impl::Block* blk = nullptr; };
   struct World {
      impl::Lexicon lx;
      impl::Translation_unit unit { lx };
      Made made[C12_K + 1]; int n = 0;
      World() { made[n++] = { unit.global_region(), unit.global_region(), nullptr, nullptr, false, 0 }; }
   };
   template<class T> struct Peek : ipr::Sequence<T> { using ipr::Sequence<T>::get; };
   template<class T> const T& at(const ipr::Sequence<T>& s, std::size_t i) { return (s.*&Peek<T>::get)(i); }
}
// K region-opening operations; SymType: the type a handler catches is picked symbolically at every step (otherwise it rotates with the step)
template<int K, bool SymType> static void region_history() {
   World* w = new World; auto& lx = w->lx;
   const ipr::Name& nm = lx.get_identifier(u8"e");
   for (int k = 0; k < K; ++k) {
      unsigned c = vp_pick(NCONSTRUCT), pi = vp_pick(w->n);
      Made& p = w->made[pi]; Made m { nullptr, nullptr, p.r, nullptr, true, p.depth + 1 };
      switch (c) {
      case KSub:
         if (!p.ir) { vp_assume(false); }
         m.ir = p.ir->make_subregion(); m.r = m.ir; m.owner_known = false; break;
      case KClass: { auto* x = lx.make_class(*p.r); m.ir = &x->body; m.r = &static_cast<const ipr::Class&>(*x).region(); m.owner = x;
         // the base-subobject region is a sibling owned by the class as well
         auto* b = x->declare_base(lx.int_type());
         vp_assert(&b->home_region().enclosing() == p.r && b->home_region().owner().is_valid() && &b->home_region().owner().get() == x && !b->home_region().global(), 1);
         break; }
      case KUnion: { auto* x = lx.make_union(*p.r); m.ir = &x->body; m.r = &static_cast<const ipr::Union&>(*x).region(); m.owner = x; break; }
      case KEnum: { auto* x = lx.make_enum(*p.r, ipr::Enum::Kind::Scoped); m.r = &static_cast<const ipr::Enum&>(*x).region(); m.owner = x; break; }
      case KNamespace: { auto* x = lx.make_namespace(*p.r); m.ir = &x->body; m.r = &static_cast<const ipr::Namespace&>(*x).region(); m.owner = x; break; }
      case KClosure: { auto* x = lx.make_closure(*p.r); m.ir = &x->body; m.r = &static_cast<const ipr::Closure&>(*x).region(); m.owner = x; break; }
      case KBlock: { auto* x = lx.make_block(*p.r); m.ir = &x->lexical_region; m.r = &static_cast<const ipr::Block&>(*x).region(); m.owner = x; m.blk = x; break; }
      case KHandler: {
         const unsigned ht = SymType ? vp_pick(3) : unsigned(k + pi) % 3, byval = ht == 1 ? 1u : 0u;
         const ipr::Type& caught = ht == 0 ? static_cast<const ipr::Type&>(lx.ellipsis_type()) : byval ? static_cast<const ipr::Type&>(lx.int_type()) : lx.get_reference(lx.get_qualified(lx.const_qualifier(), lx.int_type()));      // catch (...), by value, by reference
         auto* b = lx.make_block(*p.r); auto* h = b->new_handler(nm, caught); const ipr::Handler& ch = *h;
         const ipr::Region& body = ch.body().region(); const ipr::Region& eh = body.enclosing();
         // body enclosed by a region binding exactly the exception parameter, itself enclosed by the region enclosing the guarded block
         vp_assert(&eh.enclosing() == &static_cast<const ipr::Block&>(*b).region().enclosing() && &eh.enclosing() == p.r, 2);
         vp_assert(eh.bindings().size() == 1 && &at(eh.bindings().elements(), 0) == &ch.exception(), 3);
         vp_assert(!eh.global() && !body.global(), 4);
         { const ipr::Region& guarded = static_cast<const ipr::Block&>(*b).region();           // the guarded block still owns its region once it has a handler
           vp_assert(guarded.owner().is_valid() && &guarded.owner().get() == b && &guarded.enclosing() == p.r, 10); }
         m.ir = &h->body().lexical_region; m.r = &body; m.parent = &eh; m.owner = &ch.body(); m.owner_known = true; m.depth = p.depth + 2; break; }      // the body of a handler is a block: it owns its region
      case KMapping: { auto* x = lx.make_mapping(*p.r, Mapping_level{ 1 }); m.r = &x->parameters().region(); m.owner = x; break; }
      case KLambda: { auto* x = lx.make_lambda(*p.r, Mapping_level{ 1 }); m.r = &x->parameters().region(); m.owner = x; break; }
      case KWhere: { auto* x = lx.make_where(*p.r); m.ir = &x->region; m.r = &x->region; m.owner_known = false; break; }
      case KRequires: { auto* x = lx.make_requires(*p.r, Mapping_level{ 1 }); m.r = &x->parameters().region(); m.owner_known = false; break; }
      case KMorphism: { if (!p.ir) vp_assume(false); auto* x = p.ir->make_function_morphism(*p.r, Mapping_level{ 1 }); m.r = &x->parameters().region(); m.owner_known = false; break; }
      }
      w->made[w->n++] = m;
   }
   // later mutations of the constructs made so far: every block gains a handler, every region with an implementation handle a sub-region
   if (!SymType || vp_flag()) for (int i = 0; i < w->n; ++i) { if (w->made[i].blk) w->made[i].blk->new_handler(nm, lx.bool_type()); if (w->made[i].ir) w->made[i].ir->make_subregion(); }
   const ipr::Region* root = w->unit.global_region();
   for (int i = 0; i < w->n; ++i) {
      const Made& m = w->made[i];
      vp_assert(m.r->global() == (i == 0), 5);                                       // only the root reports itself global
      if (i == 0) { VP_MUST_THROW_LOGIC(m.r->enclosing(), 6); continue; }
      vp_assert(&m.r->enclosing() == m.parent, 7);                                   // enclosed by the region it was created in
      if (m.owner_known) vp_assert(m.r->owner().is_valid() && &m.r->owner().get() == m.owner, 8);
      // walking outward reaches the global region in exactly depth steps
      const ipr::Region* cur = m.r; unsigned steps = 0;
      while (!cur->global() && steps <= 2 * K + 2) { cur = &cur->enclosing(); ++steps; }
      vp_assert(cur == root && steps == m.depth, 9);
   }
   vp_done();
}
extern "C" void h_region_history(void) { region_history<C12_K, (C12_K <= 3)>(); }
extern "C" void h_region_history3(void) { region_history<3, true>(); }
// parameters, enumerators, bases: home region, nesting level (fully symbolic), zero-based position
extern "C" void h_members(void) {
   World* w = new World; auto& lx = w->lx;
   uint64_t lvl = nondet_ulong(); unsigned n = 1 + vp_pick(3);
   auto* m = lx.make_mapping(*w->unit.global_region(), Mapping_level{ lvl });
   auto* lam = lx.make_lambda(*w->unit.global_region(), Mapping_level{ lvl + 1 });
   auto* e = lx.make_enum(*w->unit.global_region(), ipr::Enum::Kind::Legacy);
   auto* c = lx.make_class(*w->unit.global_region());
   const ipr::Name* N[3] = { &lx.get_identifier(u8"a"), &lx.get_identifier(u8"b"), &lx.get_identifier(u8"c") };
   for (unsigned i = 0; i < n; ++i) {
      const ipr::Parameter& p = *m->param(*N[i], lx.int_type());
      const ipr::Parameter& q = *lam->inputs.add_member(*N[i], lx.bool_type());
      const ipr::Enumerator& en = *e->add_member(*N[i]);
      const ipr::Base_type& b = *c->declare_base(i % 2 ? lx.int_type() : lx.bool_type());
      vp_assert(&p.home_region() == &m->parameters().region() && &p.lexical_region() == &p.home_region(), 10);
      vp_assert(util::rep(p.level()) == lvl && util::rep(m->parameters().level()) == lvl && util::rep(q.level()) == lvl + 1, 11);
      vp_assert(util::rep(p.position()) == i && util::rep(q.position()) == i && util::rep(en.position()) == i && util::rep(b.position()) == i, 12);
      vp_assert(&q.home_region() == &lam->parameters().region(), 13);
      vp_assert(&en.home_region() == &static_cast<const ipr::Enum&>(*e).region() && &en.lexical_region() == &en.home_region(), 14);
      vp_assert(&b.home_region().owner().get() == c && &b.home_region().enclosing() == w->unit.global_region(), 15);
   }
   {  // mappings and lambdas nested in the parameter region of a mapping / lambda / class body, each with its own symbolic level (0 included,
      // equal to, below or above the outer level): every parameter reports the level its own list was created with
      uint64_t inner_lvl = nondet_ulong(); unsigned where = vp_pick(4); bool zero = vp_flag(); if (zero) inner_lvl = 0;
      const ipr::Region& parent = where == 0 ? m->parameters().region() : where == 1 ? lam->parameters().region() : where == 2 ? static_cast<const ipr::Class&>(*c).region() : *w->unit.global_region();
      auto* in_m = lx.make_mapping(parent, Mapping_level{ inner_lvl }); auto* in_l = lx.make_lambda(parent, Mapping_level{ inner_lvl });
      const ipr::Parameter& ip = *in_m->param(*N[0], lx.int_type()); const ipr::Parameter& iq = *in_l->inputs.add_member(*N[1], lx.bool_type());
      vp_assert(util::rep(ip.level()) == inner_lvl && util::rep(in_m->parameters().level()) == inner_lvl && util::rep(iq.level()) == inner_lvl && util::rep(in_l->parameters().level()) == inner_lvl, 16);
      vp_assert(util::rep(ip.position()) == 0 && &ip.home_region() == &in_m->parameters().region() && &in_m->parameters().region().enclosing() == &parent && &in_l->parameters().region().enclosing() == &parent, 17);
      vp_assert(util::rep(m->parameters().level()) == lvl, 18);      // and the outer list keeps its own
   }
   {  // parameters that share name and type nodes (the unnamed parameters of `f(int, int, bool, int)`; a repeated name): each is a member
      // of its own, at the position it was added
      auto* dm = lx.make_mapping(*w->unit.global_region(), Mapping_level{ lvl }); auto* dl = lx.make_lambda(*w->unit.global_region(), Mapping_level{ lvl });
      const ipr::Name* DN[2] = { &lx.get_identifier(u8""), N[0] }; const ipr::Type* DT[2] = { &lx.int_type(), &lx.bool_type() };
      const ipr::Parameter* dp[4]; const ipr::Parameter* dq[4]; unsigned pn[4], pt[4];
      for (unsigned i = 0; i < 4; ++i) {
         pn[i] = i < 3 ? vp_pick(2) : pn[0]; pt[i] = i < 3 ? vp_pick(2) : pt[0];
         dp[i] = dm->param(*DN[pn[i]], *DT[pt[i]]); dq[i] = dl->inputs.add_member(*DN[pn[i]], *DT[pt[i]]);
         vp_assert(util::rep(dp[i]->position()) == i && util::rep(dq[i]->position()) == i, 30);
         vp_assert(&dp[i]->name() == DN[pn[i]] && &dp[i]->type() == DT[pt[i]] && &dq[i]->type() == DT[pt[i]], 31);
         for (unsigned j = 0; j < i; ++j) vp_assert(dp[j] != dp[i] && dq[j] != dq[i], 32);
      }
      vp_assert(dm->parameters().size() == 4 && dl->parameters().size() == 4, 33);
      { unsigned i = 0; for (auto& x : dm->parameters()) { vp_assert(i < 4 && &x == dp[i] && util::rep(x.position()) == i, 34); ++i; } i = 0; for (auto& x : dl->parameters()) { vp_assert(i < 4 && &x == dq[i], 34); ++i; } }
   }
   vp_done();
}
// units: unnamed global namespace typed `namespace`; module units link back to their module
extern "C" void h_units(void) {
   impl::Lexicon* lx = new impl::Lexicon;
   impl::Translation_unit* tu = new impl::Translation_unit(*lx);
   impl::Module* mod = new impl::Module(*lx);
   unsigned n = vp_pick(3);
   const ipr::Translation_unit* units[4]; int nu = 0;
   units[nu++] = tu; units[nu++] = &static_cast<const ipr::Module&>(*mod).interface_unit();
   for (unsigned i = 0; i < n; ++i) {
      impl::Module_unit* u = mod->make_unit(); units[nu++] = u;
      vp_assert(&static_cast<const ipr::Module_unit&>(*u).parent_module() == mod, 20);
   }
   vp_assert(&static_cast<const ipr::Module&>(*mod).interface_unit().parent_module() == mod, 21);
   vp_assert(static_cast<const ipr::Module&>(*mod).implementation_units().size() == n, 22);
   for (int i = 0; i < nu; ++i) {
      const ipr::Namespace& g = units[i]->global_namespace();
      auto id = util::view<ipr::Identifier>(g.name());
      vp_assert(id != nullptr && id->string().size() == 0, 23);                      // unnamed
      vp_assert(&g.type() == &lx->namespace_type(), 24);                             // typed `namespace`
      vp_assert(g.region().global() && g.region().owner().is_valid() && &g.region().owner().get() == &g, 25);
      for (int j = i + 1; j < nu; ++j) vp_assert(&units[j]->global_namespace() != &g, 26);
   }
   vp_done();
}
