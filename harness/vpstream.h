// Observation of what a Printer wrote, in both worlds: natively from std::ostringstream::str(), symbolically from the engine's
// per-path output log of the model stream (engine/models_io.py).
#ifndef VP_STREAM_H
#define VP_STREAM_H
#include <sstream>
#include <string>
#ifdef VP_NATIVE
inline uint64_t vp_stream_size(void* os) { return static_cast<std::ostringstream*>(os)->str().size(); }
inline int vp_stream_at(void* os, uint64_t i) { return (unsigned char)static_cast<std::ostringstream*>(os)->str().at(i); }
inline int vp_streams_equal(void* a, void* b) { return static_cast<std::ostringstream*>(a)->str() == static_cast<std::ostringstream*>(b)->str(); }
inline int vp_stream_bases_decimal(void*) { return 1; }
inline int vp_stream_find(void* os, const char* needle) { return static_cast<std::ostringstream*>(os)->str().find(needle) != std::string::npos; }
inline int vp_stream_ctrl(void* os) { int n = 0; for (unsigned char c : static_cast<std::ostringstream*>(os)->str()) if ((c < 0x20 && c != '\n') || c == 0x7f) ++n; return n; }     // natively observed through the text itself
#else
extern "C" { uint64_t vp_stream_size(void*); int vp_stream_at(void*, uint64_t); int vp_streams_equal(void*, void*); int vp_stream_bases_decimal(void*); int vp_stream_ctrl(void*); int vp_stream_find(void*, const char*); }
#endif
// does the output contain the C string `needle`?  (concrete needle; symbolic bytes compare as terms)
inline bool vp_stream_contains(void* os, const char* needle) { return vp_stream_find(os, needle) != 0; }
#endif
