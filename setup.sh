#!/bin/sh
# Offline setup: nothing to build; verify the tools the checks need.
set -e
cd "$(dirname "$0")"
clang++-14 --version >/dev/null
g++ --version >/dev/null
/opt/veriftools/pyvenv/bin/python3 -c "import z3; print('z3', z3.get_version_string())"
/opt/veriftools/pyvenv/bin/python3 -m compileall -q engine >/dev/null
mkdir -p .work evidence
echo setup ok
