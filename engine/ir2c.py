#!/usr/bin/env python3
"""Prototype LLVM-14 textual IR -> C translator (feasibility probe only).
Usage: ir2c.py in.ll out.c entry1 entry2 ...
"""
import re, sys, collections

# ----------------------------------------------------------------- types
class T:
    pass
class TInt(T):
    def __init__(s, n): s.n = n
    def key(s): return 'i%d' % s.n
class TVoid(T):
    def key(s): return 'void'
class TPtr(T):
    def __init__(s, to): s.to = to
    def key(s): return 'p(' + s.to.key() + ')'
class TNamed(T):
    def __init__(s, name): s.name = name
    def key(s): return 'n(' + s.name + ')'
class TStruct(T):
    def __init__(s, fields, packed=False): s.fields = fields; s.packed = packed
    def key(s): return ('<{' if s.packed else '{') + ','.join(f.key() for f in s.fields) + '}'
class TArr(T):
    def __init__(s, n, el): s.n = n; s.el = el
    def key(s): return '[%d x %s]' % (s.n, s.el.key())
class TFunc(T):
    def __init__(s, ret, params, vararg): s.ret = ret; s.params = params; s.vararg = vararg
    def key(s): return 'f(' + s.ret.key() + ';' + ','.join(p.key() for p in s.params) + (',...' if s.vararg else '') + ')'
class TOpaque(T):
    def key(s): return 'opaque'
class TMeta(T):
    def key(s): return 'metadata'

NAME_RE = r'(?:"(?:[^"\\]|\\.)*"|[-a-zA-Z$._0-9]+)'

class P:
    """tiny cursor parser over a string"""
    def __init__(s, text, pos=0): s.t = text; s.i = pos
    def ws(s):
        while s.i < len(s.t) and s.t[s.i] in ' \t': s.i += 1
    def peek(s, lit):
        s.ws(); return s.t.startswith(lit, s.i)
    def eat(s, lit):
        s.ws()
        if s.t.startswith(lit, s.i): s.i += len(lit); return True
        return False
    def expect(s, lit):
        if not s.eat(lit): raise SyntaxError('expected %r at %r' % (lit, s.t[s.i:s.i+60]))
    def rx(s, pat):
        s.ws(); m = re.compile(pat).match(s.t, s.i)
        if m: s.i = m.end()
        return m
    def word(s):
        m = s.rx(r'[a-zA-Z_][a-zA-Z_0-9.]*'); return m.group(0) if m else None
    def peekword(s):
        s.ws(); m = re.compile(r'[a-zA-Z_][a-zA-Z_0-9.]*').match(s.t, s.i); return m.group(0) if m else None
    def rest(s): return s.t[s.i:]
    def done(s): s.ws(); return s.i >= len(s.t)

def parse_type(p):
    p.ws()
    if p.eat('void'): t = TVoid()
    elif p.eat('metadata'): t = TMeta()
    elif p.eat('opaque'): t = TOpaque()
    elif p.eat('ptr'): t = TPtr(TInt(8))
    elif p.eat('label'): t = TVoid()
    elif p.peek('<{'):
        p.expect('<{'); fs = []
        if not p.peek('}>'):
            while True:
                fs.append(parse_type(p))
                if not p.eat(','): break
        p.expect('}>'); t = TStruct(fs, True)
    elif p.peek('{'):
        p.expect('{'); fs = []
        if not p.peek('}'):
            while True:
                fs.append(parse_type(p))
                if not p.eat(','): break
        p.expect('}'); t = TStruct(fs)
    elif p.peek('['):
        p.expect('['); n = int(p.rx(r'\d+').group(0)); p.expect('x'); el = parse_type(p); p.expect(']'); t = TArr(n, el)
    elif p.peek('%'):
        m = p.rx(r'%(' + NAME_RE + ')'); t = TNamed(m.group(1))
    else:
        m = p.rx(r'i(\d+)')
        if not m: raise SyntaxError('type? ' + p.rest()[:80])
        t = TInt(int(m.group(1)))
    while True:
        p.ws()
        if p.eat('*'): t = TPtr(t); continue
        if p.peek('('):
            p.expect('('); ps = []; va = False
            if not p.peek(')'):
                while True:
                    if p.eat('...'): va = True
                    else: ps.append(parse_type(p))
                    if not p.eat(','): break
            p.expect(')'); t = TFunc(t, ps, va); continue
        break
    return t

# ----------------------------------------------------------------- values
class V:  # constant/value AST
    def __init__(s, kind, **kw): s.kind = kind; s.__dict__.update(kw)

PARAM_ATTRS = set('noundef nonnull noalias nocapture readonly readnone writeonly signext zeroext returned inreg immarg nofree nest swiftself noreturn'.split())
def skip_attrs(p):
    while True:
        p.ws()
        w = p.peekword()
        if w in PARAM_ATTRS: p.word(); continue
        if w in ('align', 'dereferenceable', 'dereferenceable_or_null'):
            p.word(); p.ws()
            if p.eat('('): p.rx(r'\d+'); p.expect(')')
            else: p.rx(r'\d+')
            continue
        if w in ('sret', 'byval', 'byref', 'inalloca', 'preallocated', 'elementtype'):
            p.word(); p.expect('('); parse_type(p); p.expect(')'); continue
        break

def parse_value(p, ty):
    """parse an operand of (known) type ty"""
    p.ws()
    if isinstance(ty, TMeta):
        p.rx(r'![\w.]*(\{[^}]*\})?'); return V('zero', ty=TInt(8), undef=True)
    if p.peek('%'):
        m = p.rx(r'%(' + NAME_RE + ')'); return V('local', name=m.group(1), ty=ty)
    if p.peek('@'):
        m = p.rx(r'@(' + NAME_RE + ')'); return V('global', name=m.group(1), ty=ty)
    m = p.rx(r'-?\d+')
    if m: return V('int', val=int(m.group(0)), ty=ty)
    w = p.peekword()
    if w in ('null', 'undef', 'poison', 'zeroinitializer', 'true', 'false', 'none'):
        p.word()
        if w == 'true': return V('int', val=1, ty=ty)
        if w == 'false': return V('int', val=0, ty=ty)
        return V('zero', ty=ty, undef=(w in ('undef', 'poison')))
    if w == 'c' and p.peek('c"'):
        m = p.rx(r'c"((?:[^"\\]|\\.)*)"'); return V('cstr', raw=m.group(1), ty=ty)
    if p.peek('<{') or p.peek('{') or p.peek('['):
        packed = p.eat('<'); close = '}' if p.peek('{') else ']'
        p.i += 1; els = []
        if not p.peek(close):
            while True:
                t = parse_type(p); els.append(parse_value(p, t))
                if not p.eat(','): break
        p.expect(close)
        if packed: p.expect('>')
        return V('agg', els=els, ty=ty)
    if w in ('getelementptr',):
        p.word(); p.eat('inbounds'); p.expect('(')
        bt = parse_type(p); p.expect(',')
        pt = parse_type(p); base = parse_value(p, pt); idx = []
        while p.eat(','):
            p.eat('inrange'); it = parse_type(p); idx.append(parse_value(p, it))
        p.expect(')')
        return V('gep', bt=bt, base=base, idx=idx, ty=ty)
    if w in ('bitcast', 'inttoptr', 'ptrtoint', 'addrspacecast', 'trunc', 'zext', 'sext'):
        p.word(); p.expect('('); st = parse_type(p); v = parse_value(p, st); p.expect('to'); dt = parse_type(p); p.expect(')')
        return V('cast', op=w, val=v, ty=dt)
    if w in ('add', 'sub', 'mul', 'and', 'or', 'xor', 'shl', 'lshr', 'ashr'):
        p.word();
        while p.peekword() in ('nuw', 'nsw', 'exact'): p.word()
        p.expect('('); t1 = parse_type(p); a = parse_value(p, t1); p.expect(','); t2 = parse_type(p); b = parse_value(p, t2); p.expect(')')
        return V('binop', op=w, a=a, b=b, ty=t1)
    if w == 'icmp':
        p.word(); pred = p.word(); p.expect('('); t1 = parse_type(p); a = parse_value(p, t1); p.expect(','); t2 = parse_type(p); b = parse_value(p, t2); p.expect(')')
        return V('icmp', pred=pred, a=a, b=b, ty=TInt(1))
    if w == 'blockaddress' or w == 'dso_local_equivalent':
        raise SyntaxError('unsupported const ' + w)
    raise SyntaxError('value? ' + p.rest()[:100])

# ----------------------------------------------------------------- module
class Func:
    def __init__(s): s.blocks = collections.OrderedDict(); s.params = []; s.ret = None; s.name = None; s.vararg = False; s.defined = False
class Glob:
    pass

class Module:
    def __init__(s, text):
        s.types = {}      # name -> T
        s.globals = {}    # name -> Glob
        s.funcs = {}      # name -> Func
        s.aliases = {}
        s.parse(text)

    def parse(s, text):
        lines = text.split('\n'); i = 0
        while i < len(lines):
            l = lines[i]; i += 1
            if not l or l[0] in ';!' or l.startswith(('source_filename', 'target', 'attributes', '$', 'module asm')): continue
            if l[0] == '%':
                m = re.match(r'%(' + NAME_RE + r') = type (.*)$', l)
                s.types[m.group(1)] = parse_type(P(m.group(2))); continue
            if l[0] == '@':
                s.parse_global(l); continue
            if l.startswith('declare'):
                s.parse_fhead(l, False); continue
            if l.startswith('define'):
                f = s.parse_fhead(l, True); body = []
                while lines[i] != '}': body.append(lines[i]); i += 1
                i += 1; f.body = body; continue

    def parse_global(s, l):
        m = re.match(r'@(' + NAME_RE + r') = (.*)$', l); name = m.group(1); p = P(m.group(2))
        is_alias = False; const = False
        while True:
            w = p.peekword()
            if w in ('private', 'internal', 'external', 'linkonce_odr', 'weak_odr', 'dso_local', 'unnamed_addr', 'local_unnamed_addr', 'hidden', 'available_externally', 'weak', 'common', 'appending', 'linkonce', 'thread_local', 'extern_weak', 'default', 'protected', 'dllimport', 'dllexport'):
                p.word(); continue
            if w == 'alias': p.word(); is_alias = True; break
            if w == 'global': p.word(); break
            if w == 'constant': p.word(); const = True; break
            raise SyntaxError('global? ' + l[:200])
        ty = parse_type(p)
        g = Glob(); g.name = name; g.ty = ty; g.const = const; g.init = None
        if is_alias:
            p.expect(','); at = parse_type(p); v = parse_value(p, at); s.aliases[name] = v; return
        p.ws()
        if not p.done() and not p.peek(',') :
            g.init = parse_value(p, ty)
        s.globals[name] = g

    def parse_fhead(s, l, defined):
        p = P(l); p.word()
        while True:
            w = p.peekword()
            if w in ('private', 'internal', 'external', 'linkonce_odr', 'weak_odr', 'dso_local', 'unnamed_addr', 'local_unnamed_addr', 'hidden', 'available_externally', 'weak', 'noundef', 'nonnull', 'noalias', 'signext', 'zeroext', 'linkonce', 'extern_weak', 'default', 'protected', 'fastcc', 'ccc', 'coldcc'):
                p.word(); continue
            if w in ('align', 'dereferenceable', 'dereferenceable_or_null'):
                skip_attrs(p); continue
            break
        ret = parse_type_nofn(p); skip_attrs(p)
        m = p.rx(r'@(' + NAME_RE + ')'); name = m.group(1)
        p.expect('('); params = []; va = False
        if not p.peek(')'):
            while True:
                if p.eat('...'): va = True
                else:
                    t = parse_type(p); skip_attrs(p); pn = None
                    mm = p.rx(r'%(' + NAME_RE + ')')
                    if mm: pn = mm.group(1)
                    params.append((t, pn))
                if not p.eat(','): break
        p.expect(')')
        f = s.funcs.get(name) or Func()
        f.name = name; f.ret = ret; f.params = params; f.vararg = va; f.defined = defined or f.defined
        s.funcs[name] = f
        return f

def parse_type_nofn(p):
    # a type that must not swallow a following "(" (function header return type)
    p.ws(); start = p.i
    t = None
    if p.eat('void'): t = TVoid()
    elif p.peek('%'):
        m = p.rx(r'%(' + NAME_RE + ')'); t = TNamed(m.group(1))
    elif p.peek('{') or p.peek('<{') or p.peek('['):
        # parse aggregate fully via parse_type but stop before '(' : aggregates contain no trailing '('
        q = P(p.t, p.i); t = parse_type_noparen(q); p.i = q.i; return t
    else:
        m = p.rx(r'i(\d+)'); t = TInt(int(m.group(1)))
    while p.eat('*'): t = TPtr(t)
    return t

def parse_type_noparen(p):
    # parse "{...}" / "[..]" then stars
    depth = 0; i = p.i
    while True:
        c = p.t[i]
        if c in '{[': depth += 1
        if c in '}]':
            depth -= 1
            if depth == 0: i += 1; break
        i += 1
    if p.t.startswith('<{', p.i): i += 1
    sub = P(p.t[p.i:i]); t = parse_type(sub); p.i = i
    while p.eat('*'): t = TPtr(t)
    return t

# ----------------------------------------------------------------- C emission
def cid(name):
    if name.startswith('"'): name = name[1:-1]
    out = re.sub(r'[^A-Za-z0-9_]', lambda m: '_%02x' % ord(m.group(0)), name)
    return out

class Emitter:
    def __init__(s, mod):
        s.m = mod; s.lit = {}; s.arr = {}; s.typedefs = []; s.emitted_types = set(); s.out = []
        s.decl_order = []

    # --- type to C
    def resolve(s, t):
        while isinstance(t, TNamed): t = s.m.types[t.name]
        return t
    def ct(s, t):
        if isinstance(t, TInt):
            n = t.n
            if n == 1: return 'unsigned char'
            if n <= 8: return 'unsigned char'
            if n <= 16: return 'unsigned short'
            if n <= 32: return 'unsigned int'
            if n <= 64: return 'unsigned long'
            if n <= 128: return 'unsigned __int128'
            raise ValueError(n)
        if isinstance(t, TVoid): return 'void'
        if isinstance(t, TPtr):
            to = t.to
            if isinstance(to, TFunc): return 'fnptr_t'
            if isinstance(to, TVoid) or isinstance(to, TOpaque): return 'char*'
            if isinstance(to, TNamed) and isinstance(s.m.types.get(to.name), TOpaque): return 'char*'
            return s.ct(to) + '*'
        if isinstance(t, TNamed):
            s.need_struct(t); return 'struct ' + cid('S_' + t.name)
        if isinstance(t, TStruct):
            k = t.key()
            if k not in s.lit: s.lit[k] = ('L%d' % len(s.lit), t)
            s.need_struct(t); return 'struct ' + s.lit[k][0]
        if isinstance(t, TArr):
            k = t.key()
            if k not in s.arr: s.arr[k] = ('A%d' % len(s.arr), t)
            s.need_struct(t); return 'struct ' + s.arr[k][0]
        if isinstance(t, TFunc): return 'fnptr_t'
        if isinstance(t, TOpaque): return 'char'
        raise ValueError(t)

    def need_struct(s, t):
        k = t.key()
        if k in s.emitted_types: return
        s.emitted_types.add(k)
        if isinstance(t, TNamed):
            body = s.m.types[t.name]; cname = cid('S_' + t.name)
            if isinstance(body, TOpaque): s.decl_order.append('struct %s { char opaque; };' % cname); return
            fields = body.fields; packed = body.packed
        elif isinstance(t, TStruct):
            cname = s.lit[k][0]; fields = t.fields; packed = t.packed
        else:
            cname = s.arr[k][0]
            # by-value element type must be complete first
            s.complete(t.el)
            s.decl_order.append('struct %s { %s a[%d]; };' % (cname, s.ct(t.el), max(t.n, 1))); return
        for f in fields: s.complete(f)
        fs = ' '.join('%s f%d;' % (s.ct(f), i) for i, f in enumerate(fields)) or 'char empty;'
        s.decl_order.append('struct %s { %s }%s;' % (cname, fs, ' __attribute__((packed))' if packed else ''))

    def complete(s, t):
        # make sure by-value member types are emitted before use
        if isinstance(t, (TNamed, TStruct, TArr)): s.ct(t)
        # pointers only need forward decls; we forward-declare everything up front

    # --- sizes (x86-64)
    def size_align(s, t):
        t0 = t; t = s.resolve(t)
        if isinstance(t, TInt):
            b = 1 if t.n <= 8 else 2 if t.n <= 16 else 4 if t.n <= 32 else 8 if t.n <= 64 else 16
            return b, b
        if isinstance(t, TPtr) or isinstance(t, TFunc): return 8, 8
        if isinstance(t, TArr):
            sz, al = s.size_align(t.el); return sz * t.n, al
        if isinstance(t, TStruct):
            off = 0; mal = 1
            for f in t.fields:
                sz, al = s.size_align(f)
                if t.packed: al = 1
                off = (off + al - 1) // al * al; off += sz; mal = max(mal, al)
            off = (off + mal - 1) // mal * mal
            return off, mal
        if isinstance(t, TOpaque): return 1, 1
        raise ValueError(t0)

# ----------------------------------------------------------------- function translation
class FnTrans:
    def __init__(s, em, f, ext):
        s.em = em; s.m = em.m; s.f = f; s.ext = ext
        s.locals = {}   # name -> T
        s.refs_f = set(); s.refs_g = set()
        s.lines = []

    def lname(s, n): return 'v_' + cid(n)

    def val(s, v, want=None):
        """C expression for value v (typed v.ty)"""
        em = s.em
        k = v.kind
        if k == 'local': return s.lname(v.name)
        if k == 'int':
            t = em.resolve(v.ty)
            if isinstance(t, TPtr): return '((%s)%dL)' % (em.ct(v.ty), v.val)
            n = t.n; val = v.val & ((1 << n) - 1)
            return '((%s)%dUL)' % (em.ct(v.ty), val)
        if k == 'zero':
            t = em.resolve(v.ty)
            if isinstance(t, TPtr): return '((%s)0)' % em.ct(v.ty)
            if isinstance(t, TInt): return '((%s)0)' % em.ct(v.ty)
            return '((%s){0})' % em.ct(v.ty)
        if k == 'global':
            return s.gref(v.name, v.ty)
        if k == 'cast':
            inner = s.val(v.val); st = em.resolve(v.val.ty); dt = em.resolve(v.ty)
            if v.op in ('bitcast', 'addrspacecast'): return '((%s)%s)' % (em.ct(v.ty), inner)
            if v.op == 'inttoptr': return '((%s)(unsigned long)%s)' % (em.ct(v.ty), inner)
            if v.op == 'ptrtoint': return '((%s)(unsigned long)%s)' % (em.ct(v.ty), inner)
            if v.op in ('trunc', 'zext'): return '((%s)%s)' % (em.ct(v.ty), s.mask(inner, st))
            if v.op == 'sext': return '((%s)%s)' % (em.ct(v.ty), s.sx(inner, st))
        if k == 'gep':
            return s.gep(v.bt, v.base, v.idx, v.ty)
        if k == 'binop':
            return s.binop(v.op, v.a, v.b, v.ty)
        if k == 'icmp':
            return s.icmp(v.pred, v.a, v.b)
        if k == 'agg':
            r = em.resolve(v.ty)
            inner = ', '.join(s.val(e) for e in v.els)
            if isinstance(r, TArr): return '((%s){{%s}})' % (em.ct(v.ty), inner)
            return '((%s){%s})' % (em.ct(v.ty), inner)
        raise ValueError('val kind ' + k)

    def mask(s, e, t):
        t = s.em.resolve(t)
        if isinstance(t, TInt) and t.n not in (8, 16, 32, 64, 128): return '(%s & %dUL)' % (e, (1 << t.n) - 1)
        return e
    def sx(s, e, t):
        t = s.em.resolve(t); n = t.n
        st = {8: 'signed char', 16: 'short', 32: 'int', 64: 'long'}.get(n)
        if st: return '((%s)%s)' % (st, e)
        if n == 1: return '(-(long)(%s & 1))' % e
        raise ValueError('sext i%d' % n)

    def gref(s, name, ty):
        m = s.m
        if name in m.aliases:
            a = m.aliases[name]
            return s.val(V('cast', op='bitcast', val=a, ty=ty)) if ty is not None else s.val(a)
        if name in m.funcs:
            s.refs_f.add(name); return '((%s)&%s)' % (s.em.ct(ty) if ty else 'fnptr_t', 'F_' + cid(name))
        s.refs_g.add(name)
        return '((%s)&%s)' % (s.em.ct(ty), 'G_' + cid(name))

    def gep(s, bt, base, idx, rty):
        em = s.em
        e = s.val(base); cur = bt
        # first index scales base pointer
        first = idx[0]
        fe = s.val(first)
        bct = em.ct(bt)
        if isinstance(em.resolve(bt), TInt) and em.resolve(bt).n == 8:
            e = '((char*)%s + (long)%s)' % (e, s.sx(fe, first.ty) if not first.kind == 'int' else str(first.val))
            expr = e; isaddr = True
        else:
            if first.kind == 'int' and first.val == 0: expr = '(*(%s*)%s)' % (bct, e)
            else: expr = '(((%s*)%s)[(long)%s])' % (bct, e, s.sx(fe, first.ty) if first.kind != 'int' else str(first.val))
            isaddr = False
        for ix in idx[1:]:
            r = em.resolve(cur)
            if isinstance(r, TStruct):
                assert ix.kind == 'int', 'struct index must be const'
                expr = '%s.f%d' % (expr, ix.val); cur = r.fields[ix.val]
            elif isinstance(r, TArr):
                ie = str(ix.val) if ix.kind == 'int' else '(long)' + s.sx(s.val(ix), ix.ty)
                expr = '%s.a[%s]' % (expr, ie); cur = r.el
            else: raise ValueError('gep into ' + cur.key())
        if isaddr: return '((%s)%s)' % (em.ct(rty), expr)
        return '((%s)&%s)' % (em.ct(rty), expr)

    def binop(s, op, a, b, ty):
        em = s.em; t = em.resolve(ty); n = t.n; ct = em.ct(ty)
        A = s.val(a); B = s.val(b)
        big = 'unsigned long' if n <= 64 else 'unsigned __int128'
        def wrap(e): return '((%s)%s)' % (ct, s.mask('(%s)' % e, t))
        if op == 'add': return wrap('(%s)%s + (%s)%s' % (big, A, big, B))
        if op == 'sub': return wrap('(%s)%s - (%s)%s' % (big, A, big, B))
        if op == 'mul': return wrap('(%s)%s * (%s)%s' % (big, A, big, B))
        if op == 'and': return wrap('%s & %s' % (A, B))
        if op == 'or': return wrap('%s | %s' % (A, B))
        if op == 'xor': return wrap('%s ^ %s' % (A, B))
        if op == 'shl': return wrap('(%s)%s << %s' % (big, A, B))
        if op == 'lshr': return wrap('(%s)%s >> %s' % (big, s.mask(A, t), B))
        if op == 'ashr': return wrap('%s >> %s' % (s.sx(A, t), B))
        if op == 'udiv': return wrap('%s / %s' % (s.mask(A, t), s.mask(B, t)))
        if op == 'urem': return wrap('%s %% %s' % (s.mask(A, t), s.mask(B, t)))
        if op == 'sdiv': return wrap('%s / %s' % (s.sx(A, t), s.sx(B, t)))
        if op == 'srem': return wrap('%s %% %s' % (s.sx(A, t), s.sx(B, t)))
        raise ValueError(op)

    def icmp(s, pred, a, b):
        em = s.em; t = em.resolve(a.ty); A = s.val(a); B = s.val(b)
        if isinstance(t, TPtr):
            A = '(char*)' + A; B = '(char*)' + B
            op = {'eq': '==', 'ne': '!=', 'ult': '<', 'ule': '<=', 'ugt': '>', 'uge': '>=', 'slt': '<', 'sle': '<=', 'sgt': '>', 'sge': '>='}[pred]
            return '((unsigned char)(%s %s %s))' % (A, op, B)
        if pred in ('eq', 'ne', 'ult', 'ule', 'ugt', 'uge'):
            op = {'eq': '==', 'ne': '!=', 'ult': '<', 'ule': '<=', 'ugt': '>', 'uge': '>='}[pred]
            return '((unsigned char)(%s %s %s))' % (s.mask(A, t), op, s.mask(B, t))
        op = {'slt': '<', 'sle': '<=', 'sgt': '>', 'sge': '>='}[pred]
        return '((unsigned char)(%s %s %s))' % (s.sx(A, t), op, s.sx(B, t))

    # ---- body
    def translate(s):
        f = s.f; em = s.em
        # split into blocks
        blocks = collections.OrderedDict(); cur = '%entry'; blocks[cur] = []
        first_label = None
        for l in f.body:
            if not l.strip() or l.strip().startswith(';'): continue
            m = re.match(r'^(' + NAME_RE + r'):', l)
            if m and not l.startswith(' '):
                cur = m.group(1); blocks[cur] = []; continue
            blocks[cur].append(l.strip())
        # the entry block has implicit numeric name: number of params (unnamed) -> find by preds usage; we just map '%entry'
        s.blocks = blocks
        # parse all instructions
        s.insts = {}; s.phis = {}
        # multi-line instructions (invoke ... \n to label, switch [...]) : join
        for bn, ls in blocks.items():
            joined = []
            for l in ls:
                if joined and (l.startswith('to label') or joined[-1].endswith('[') or (joined[-1].startswith('switch') and not joined[-1].endswith(']')) or l.startswith('cleanup') or l.startswith('catch ') or l.startswith('filter ')):
                    joined[-1] += ' ' + l
                else: joined.append(l)
            blocks[bn] = joined
        # entry block label: implicit; predecessors refer to it by number = count of unnamed params.. compute
        nunnamed = sum(1 for (t, n) in f.params if n is None or n.isdigit())
        s.entry_name = str(nunnamed)
        # reachable blocks via normal edges
        succ = {}
        for bn, ls in blocks.items():
            term = ls[-1] if ls else 'unreachable'
            su = []
            if term.startswith('br '):
                su = re.findall(r'label %(' + NAME_RE + ')', term)
            elif term.startswith('switch '):
                su = re.findall(r'label %(' + NAME_RE + ')', term)
            elif 'invoke ' in term:
                mm = re.search(r'to label %(' + NAME_RE + ') unwind', term); su = [mm.group(1)]
            succ[bn] = su
        reach = set(); stack = ['%entry']
        while stack:
            b = stack.pop()
            if b in reach: continue
            reach.add(b)
            for x in succ.get(b, []):
                if x in blocks: stack.append(x)
        s.reach = reach
        body = []
        for bn in blocks:
            if bn not in reach: continue
            body.append('L_%s: ;' % cid(bn if bn != '%entry' else 'entry'))
            for l in blocks[bn]:
                body.extend(s.inst(l, bn))
        decls = []
        for i, (t, n) in enumerate(f.params):
            pass
        for n, t in s.locals.items():
            decls.append('  %s %s;' % (em.ct(t), s.lname(n)))
        return decls, body

    def setl(s, name, ty, expr):
        s.locals[name] = ty
        return '  %s = %s;' % (s.lname(name), expr)

    def blk(s, n, frm):
        return 'L_' + cid(n)

    def phi_moves(s, frm, to):
        """assignments for phis in block `to` when coming from `frm`"""
        res = []; tmp = []
        frm_names = {frm, s.entry_name} if frm == '%entry' else {frm}
        for l in s.blocks.get(to, []):
            m = re.match(r'%(' + NAME_RE + r') = phi (.*)$', l)
            if not m: break
            p = P(m.group(2)); ty = parse_type(p); name = m.group(1); s.locals[name] = ty
            found = False
            while True:
                p.expect('['); v = parse_value(p, ty); p.expect(','); mm = p.rx(r'%(' + NAME_RE + ')'); p.expect(']')
                if mm.group(1) in frm_names:
                    tmp.append('  %s t_%s = %s;' % (s.em.ct(ty), cid(name), s.val(v)))
                    res.append('  %s = t_%s;' % (s.lname(name), cid(name))); found = True
                if not p.eat(','): break
            if not found: raise ValueError('phi no incoming %s from %s in %s' % (name, frm, s.f.name))
        if not tmp: return []
        return ['  {'] + tmp + res + ['  }']

    def goto(s, frm, to):
        return s.phi_moves(frm, to) + ['  goto %s;' % s.blk(to, frm)]

    def inst(s, l, bn):
        em = s.em; out = []
        m = re.match(r'%(' + NAME_RE + r') = (.*)$', l)
        dst = None
        if m: dst = m.group(1); l = m.group(2)
        l = re.sub(r',\s*!\w+(\.\w+)* !\d+', '', l)       # strip metadata attachments
        l = re.sub(r',\s*!srcloc !\d+', '', l)
        p = P(l)
        for pre in ('tail', 'musttail', 'notail'):
            if p.peekword() == pre: p.word()
        op = p.word()
        if op == 'phi': return []
        if op in ('add', 'sub', 'mul', 'and', 'or', 'xor', 'shl', 'lshr', 'ashr', 'udiv', 'sdiv', 'urem', 'srem'):
            while p.peekword() in ('nuw', 'nsw', 'exact'): p.word()
            ty = parse_type(p); a = parse_value(p, ty); p.expect(','); b = parse_value(p, ty)
            return [s.setl(dst, ty, s.binop(op, a, b, ty))]
        if op == 'icmp':
            pred = p.word(); ty = parse_type(p); a = parse_value(p, ty); p.expect(','); b = parse_value(p, ty)
            return [s.setl(dst, TInt(1), s.icmp(pred, a, b))]
        if op in ('bitcast', 'inttoptr', 'ptrtoint', 'trunc', 'zext', 'sext', 'addrspacecast'):
            st = parse_type(p); v = parse_value(p, st); p.expect('to'); dt = parse_type(p)
            return [s.setl(dst, dt, s.val(V('cast', op=op, val=v, ty=dt)))]
        if op == 'freeze':
            st = parse_type(p); v = parse_value(p, st); return [s.setl(dst, st, s.val(v))]
        if op == 'getelementptr':
            p.eat('inbounds'); bt = parse_type(p); p.expect(','); pt = parse_type(p); base = parse_value(p, pt); idx = []
            while p.eat(','):
                p.eat('inrange'); it = parse_type(p); idx.append(parse_value(p, it))
            # result type
            cur = bt
            for ix in idx[1:]:
                r = em.resolve(cur)
                cur = r.fields[ix.val] if isinstance(r, TStruct) else r.el
            rty = TPtr(cur)
            return [s.setl(dst, rty, s.gep(bt, base, idx, rty))]
        if op == 'load':
            p.eat('volatile'); ty = parse_type(p); p.expect(','); pt = parse_type(p); ptr = parse_value(p, pt)
            return [s.setl(dst, ty, '(*(%s*)%s)' % (em.ct(ty), s.val(ptr)))]
        if op == 'store':
            p.eat('volatile'); ty = parse_type(p); v = parse_value(p, ty); p.expect(','); pt = parse_type(p); ptr = parse_value(p, pt)
            return ['  *(%s*)%s = %s;' % (em.ct(ty), s.val(ptr), s.val(v))]
        if op == 'alloca':
            ty = parse_type(p); cnt = None
            if p.eat(','):
                if p.peekword() != 'align':
                    ct_ = parse_type(p); cnt = parse_value(p, ct_)
            an = 'a_' + cid(dst)
            s.locals[dst] = TPtr(ty)
            if cnt is None: s.allocas = getattr(s, 'allocas', []) + ['  %s %s;' % (em.ct(ty), an)]
            else:
                assert cnt.kind == 'int'; s.allocas = getattr(s, 'allocas', []) + ['  %s %s[%d];' % (em.ct(ty), an, cnt.val)]
            return ['  %s = (%s)&%s;' % (s.lname(dst), em.ct(TPtr(ty)), an)]
        if op == 'select':
            ct_ = parse_type(p); c = parse_value(p, ct_); p.expect(','); t1 = parse_type(p); a = parse_value(p, t1); p.expect(','); t2 = parse_type(p); b = parse_value(p, t2)
            return [s.setl(dst, t1, '(%s ? %s : %s)' % (s.val(c), s.val(a), s.val(b)))]
        if op == 'extractvalue':
            ty = parse_type(p); v = parse_value(p, ty); idxs = []
            while p.eat(','): idxs.append(int(p.rx(r'\d+').group(0)))
            e = s.val(v); cur = ty
            for ix in idxs:
                r = em.resolve(cur)
                if isinstance(r, TStruct): e += '.f%d' % ix; cur = r.fields[ix]
                else: e += '.a[%d]' % ix; cur = r.el
            return [s.setl(dst, cur, e)]
        if op == 'insertvalue':
            ty = parse_type(p); v = parse_value(p, ty); p.expect(','); et = parse_type(p); ev = parse_value(p, et); idxs = []
            while p.eat(','): idxs.append(int(p.rx(r'\d+').group(0)))
            s.locals[dst] = ty; acc = s.lname(dst); cur = ty
            for ix in idxs:
                r = em.resolve(cur)
                if isinstance(r, TStruct): acc += '.f%d' % ix; cur = r.fields[ix]
                else: acc += '.a[%d]' % ix; cur = r.el
            base = s.val(v)
            return ['  %s = %s;' % (s.lname(dst), base), '  %s = %s;' % (acc, s.val(ev))]
        if op == 'ret':
            if p.peek('void'): return ['  return;']
            ty = parse_type(p); v = parse_value(p, ty); return ['  return %s;' % s.val(v)]
        if op == 'br':
            if p.peek('label'):
                p.word(); mm = p.rx(r'%(' + NAME_RE + ')'); return s.goto(bn, mm.group(1))
            ty = parse_type(p); c = parse_value(p, ty); p.expect(','); p.expect('label'); t1 = p.rx(r'%(' + NAME_RE + ')').group(1); p.expect(','); p.expect('label'); t2 = p.rx(r'%(' + NAME_RE + ')').group(1)
            return ['  if (%s) {' % s.val(c)] + s.goto(bn, t1) + ['  } else {'] + s.goto(bn, t2) + ['  }']
        if op == 'switch':
            ty = parse_type(p); v = parse_value(p, ty); p.expect(','); p.expect('label'); dflt = p.rx(r'%(' + NAME_RE + ')').group(1); p.expect('[')
            out = ['  switch (%s) {' % s.mask(s.val(v), ty)]
            while not p.peek(']'):
                ct_ = parse_type(p); cv = parse_value(p, ct_); p.expect(','); p.expect('label'); tgt = p.rx(r'%(' + NAME_RE + ')').group(1)
                out += ['  case %s: {' % s.val(cv)] + s.goto(bn, tgt) + ['  }']
            out += ['  default: {'] + s.goto(bn, dflt) + ['  }', '  }']
            return out
        if op == 'unreachable': return ['  __CPROVER_assume(0);']
        if op in ('call', 'invoke'):
            return s.call(p, dst, bn, op == 'invoke')
        if op in ('landingpad', 'resume'): return ['  __CPROVER_assume(0);']
        raise ValueError('inst? ' + op + ' :: ' + l[:120])

    def call(s, p, dst, bn, is_invoke):
        em = s.em
        # return attrs / cc / fast-math
        while True:
            w = p.peekword()
            if w in ('fastcc', 'ccc', 'coldcc'): p.word(); continue
            if w in PARAM_ATTRS or w in ('align', 'dereferenceable', 'dereferenceable_or_null'): skip_attrs(p); continue
            break
        rt = parse_type_nofn_call(p)
        # callee
        p.ws(); fnty = None
        if p.peek('('):
            # function type spelled out: "ret (params) @f" form already consumed? handle "void (i8*, ...) @f"
            pass
        callee_is_direct = p.peek('@')
        if callee_is_direct:
            cname = p.rx(r'@(' + NAME_RE + ')').group(1); callee = None
        else:
            mm = p.rx(r'%(' + NAME_RE + ')')
            if mm: callee = V('local', name=mm.group(1), ty=None); cname = None
            else:
                # constant expression callee e.g. bitcast (...)
                callee = parse_value(p, None); cname = None
        p.expect('('); args = []
        if not p.peek(')'):
            while True:
                at = parse_type(p); skip_attrs(p); av = parse_value(p, at); args.append((at, av))
                if not p.eat(','): break
        p.expect(')')
        normal = None
        if is_invoke:
            mm = re.search(r'to label %(' + NAME_RE + ') unwind', p.rest()); normal = mm.group(1)
        ret_t = rt if not isinstance(rt, TFunc) else rt.ret
        lines = []
        if cname is not None and cname in s.m.aliases and s.m.aliases[cname].kind == 'global': cname = s.m.aliases[cname].name
        if cname in ('_Znwm', '_Znam') and dst is not None and args and args[0][1].kind == 'int':
            # typed allocation: look for a bitcast of the result to T* with sizeof(T) == constant
            sz = args[0][1].val; tyname = None
            for bl in s.blocks.values():
                for ll in bl:
                    mm = re.match(r'%(' + NAME_RE + r') = bitcast i8\* %' + re.escape(dst) + r' to (.*)$', ll)
                    if mm:
                        try:
                            tt = parse_type(P(mm.group(2)))
                            if isinstance(tt, TPtr) and not isinstance(em.resolve(tt.to), (TFunc, TOpaque, TPtr, TInt)) and em.size_align(tt.to)[0] == sz:
                                tyname = em.ct(tt.to); break
                        except Exception: pass
                if tyname: break
            if tyname:
                lines = [s.setl(dst, ret_t, '(unsigned char*)malloc(sizeof(%s))' % tyname), '  __CPROVER_assume(%s != 0);' % s.lname(dst)]
                if is_invoke: lines += s.goto(bn, normal)
                return lines
        if cname is not None:
            if cname.startswith('llvm.'):
                lines = s.intrinsic(cname, args, dst, ret_t)
            else:
                s.refs_f.add(cname)
                f2 = s.m.funcs.get(cname)
                argl = []
                for i, (at, av) in enumerate(args):
                    e = s.val(av)
                    if f2 and i < len(f2.params): e = '(%s)%s' % (em.ct(f2.params[i][0]), e) if isinstance(em.resolve(at), TPtr) else e
                    argl.append(e)
                ce = 'F_%s(%s)' % (cid(cname), ', '.join(argl))
                if isinstance(ret_t, TVoid) or dst is None: lines = ['  %s;' % ce]
                else:
                    if f2 and isinstance(em.resolve(f2.ret), TPtr): ce = '(%s)%s' % (em.ct(ret_t), ce)
                    lines = [s.setl(dst, ret_t, ce)]
        else:
            fe = s.val(callee)
            pts = ', '.join(em.ct(at) for at, _ in args) or 'void'
            ce = '((%s(*)(%s))%s)(%s)' % (em.ct(ret_t), pts, fe, ', '.join(s.val(av) for _, av in args))
            if isinstance(ret_t, TVoid) or dst is None: lines = ['  %s;' % ce]
            else: lines = [s.setl(dst, ret_t, ce)]
        if is_invoke: lines += s.goto(bn, normal)
        return lines

    def natural_type(s, pn, need):
        em = s.em; best = None
        for bl in s.blocks.values():
            for ll in bl:
                mm = re.match(r'%(' + NAME_RE + r') = bitcast (.*) %(' + NAME_RE + r') to (.*?)(, !.*)?$', ll)
                if not mm: continue
                try:
                    if mm.group(1) == pn: tt = parse_type(P(mm.group(2)))      # pn = bitcast T* %y to i8*
                    elif mm.group(3) == pn: tt = parse_type(P(mm.group(4)))    # %y = bitcast i8* pn to T*
                    else: continue
                    if isinstance(tt, TPtr) and isinstance(em.resolve(tt.to), (TStruct, TArr)):
                        sz = em.size_align(tt.to)[0]
                        if sz >= need and (best is None or sz < best[0]): best = (sz, tt.to)
                except Exception: pass
        return best[1] if best else None

    def intrinsic(s, name, args, dst, ret_t):
        A = [s.val(av) for _, av in args]
        if name.startswith(('llvm.lifetime', 'llvm.experimental.noalias', 'llvm.assume', 'llvm.dbg', 'llvm.invariant')): return []
        if name.startswith('llvm.memcpy'): return ['  memcpy(%s, %s, %s);' % (A[0], A[1], A[2])]
        if name.startswith('llvm.memmove'): return ['  memmove(%s, %s, %s);' % (A[0], A[1], A[2])]
        if name.startswith('llvm.memset') and args[2][1].kind == 'int' and args[1][1].kind == 'int' and args[1][1].val == 0 and args[0][1].kind == 'local':
            n = args[2][1].val; pn = args[0][1].name; em = s.em
            nat = s.natural_type(pn, n)
            if nat is not None:
                leaves = []
                def walk(t, off, path):
                    r = em.resolve(t)
                    if isinstance(r, TStruct):
                        o = 0
                        for i, f in enumerate(r.fields):
                            sz, al = em.size_align(f)
                            if r.packed: al = 1
                            o = (o + al - 1) // al * al
                            walk(f, off + o, path + '.f%d' % i); o += sz
                    elif isinstance(r, TArr):
                        sz, al = em.size_align(r.el)
                        for i in range(r.n): walk(r.el, off + i * sz, path + '.a[%d]' % i)
                    else:
                        leaves.append((off, em.size_align(r)[0], path))
                walk(nat, 0, '')
                if all(o + z <= n or o >= n for o, z, _ in leaves) and len(leaves) < 3000:
                    ct_ = em.ct(nat)
                    return ['  (*(%s*)%s)%s = 0;' % (ct_, A[0], p_) for o, z, p_ in leaves if o + z <= n]
        if name.startswith('llvm.memset'):
            cnt = args[2][1]; bv = args[1][1]
            if cnt.kind == 'int' and bv.kind == 'int' and cnt.val <= 4096 and cnt.val % 8 == 0:
                w = (bv.val & 255) * 0x0101010101010101
                return ['  { unsigned long* mp = (unsigned long*)%s;' % A[0]] + ['    mp[%d] = %dUL;' % (i, w) for i in range(cnt.val // 8)] + ['  }']
            return ['  memset(%s, %s, %s);' % (A[0], A[1], A[2])]
        if name.startswith('llvm.umax'): return [s.setl(dst, ret_t, '(%s > %s ? %s : %s)' % (A[0], A[1], A[0], A[1]))]
        if name.startswith('llvm.umin'): return [s.setl(dst, ret_t, '(%s < %s ? %s : %s)' % (A[0], A[1], A[0], A[1]))]
        if name.startswith('llvm.smax'):
            t = args[0][0]; return [s.setl(dst, ret_t, '(%s > %s ? %s : %s)' % (s.sx(A[0], t), s.sx(A[1], t), A[0], A[1]))]
        if name.startswith('llvm.smin'):
            t = args[0][0]; return [s.setl(dst, ret_t, '(%s < %s ? %s : %s)' % (s.sx(A[0], t), s.sx(A[1], t), A[0], A[1]))]
        if name.startswith('llvm.trap'): return ['  __CPROVER_assert(0, "llvm.trap"); __CPROVER_assume(0);']
        raise ValueError('intrinsic ' + name)

def parse_type_nofn_call(p):
    """return type in a call: may be 'T' or full fn type 'T (params)' (for varargs)."""
    q = P(p.t, p.i)
    t = parse_type_nofn(q)
    q.ws()
    if q.peek('('):
        # could be a function type spelled out (varargs call) -- detect: after matching paren comes '@' or '%' or 'bitcast'
        depth = 0; j = q.i
        while True:
            c = q.t[j]
            if c == '(': depth += 1
            if c == ')':
                depth -= 1
                if depth == 0: break
            j += 1
        k = j + 1
        while k < len(q.t) and q.t[k] in ' *': k += 1
        if q.t[k] in '@%' or q.t.startswith('bitcast', k):
            # it was a function type; skip it
            p.i = k; return t
    p.i = q.i
    return t

# ----------------------------------------------------------------- driver
EXTERNAL_MODELS = {
    '_Znwm', '_Znam', '_ZdlPv', '_ZdaPv', '_ZdlPvm', 'memcmp', 'bcmp', 'strlen', 'nondet_ulong', 'vp_assume', 'vp_assert',
    '__cxa_allocate_exception', '__cxa_throw', '__cxa_free_exception', '__cxa_pure_virtual', '__cxa_begin_catch', '__cxa_end_catch', '__cxa_rethrow',
    '_ZSt9terminatev', '__clang_call_terminate', '_ZSt20__throw_length_errorPKc', '_ZSt28__throw_bad_array_new_lengthv', '_ZSt17__throw_bad_allocv',
    '_ZSt24__throw_out_of_range_fmtPKcz', '_ZSt11_Hash_bytesPKvmm', '_ZSt18_Rb_tree_decrementPSt18_Rb_tree_node_base', '_ZSt18_Rb_tree_incrementPSt18_Rb_tree_node_base',
    '_ZSt29_Rb_tree_insert_and_rebalancebPSt18_Rb_tree_node_baseS0_RS_', '__gxx_personality_v0',
}

def main():
    src = open(sys.argv[1]).read(); outp = sys.argv[2]; entries = sys.argv[3:]
    mod = Module(src); em = Emitter(mod)
    todo = list(entries); done = {}; gneeded = set(); externals = set()
    fn_text = {}
    while todo:
        n = todo.pop()
        if n in done: continue
        if n in mod.aliases and mod.aliases[n].kind == 'global': n2 = mod.aliases[n].name
        else: n2 = n
        f = mod.funcs.get(n2)
        if f is None: raise KeyError(n)
        done[n] = True
        if not f.defined:
            externals.add(n2); continue
        ft = FnTrans(em, f, None); ft.allocas = []
        decls, body = ft.translate()
        fn_text[n2] = (ft, decls, body)
        for r in ft.refs_f:
            if r not in done: todo.append(r)
        # globals: follow initializers for function refs
        gtodo = list(ft.refs_g)
        while gtodo:
            g = gtodo.pop()
            if g in gneeded: continue
            gneeded.add(g)
            gl = mod.globals.get(g)
            if gl is None or gl.init is None: continue
            def walk(v):
                if v.kind == 'global':
                    nm = v.name
                    if nm in mod.aliases and mod.aliases[nm].kind == 'global': nm = mod.aliases[nm].name
                    if nm in mod.funcs:
                        if nm not in done: todo.append(nm)
                    elif nm not in gneeded: gtodo.append(nm)
                elif v.kind == 'agg':
                    for e in v.els: walk(e)
                elif v.kind == 'cast': walk(v.val)
                elif v.kind == 'gep':
                    walk(v.base)
                elif v.kind in ('binop', 'icmp'): walk(v.a); walk(v.b)
            walk(gl.init)
    # ---- emit
    o = []
    o.append('/* generated by ir2c prototype */')
    o.append('#include <string.h>\n#include <stdlib.h>\ntypedef void (*fnptr_t)(void);')
    # globals decl text requires ct() of their types -> fill struct decls
    gdecl = []; gdef = []
    ginit_tr = FnTrans(em, Func(), None)
    def cinit(v):
        k = v.kind
        if k == 'agg':
            r = em.resolve(v.ty)
            if isinstance(r, TArr): return '{{' + ', '.join(cinit(e) for e in v.els) + '}}'
            return '{' + ', '.join(cinit(e) for e in v.els) + '}'
        if k == 'zero':
            r = em.resolve(v.ty)
            if isinstance(r, (TInt, TPtr)): return '0'
            return '{0}'
        if k == 'cstr':
            raw = v.raw; bs = []; i = 0
            while i < len(raw):
                if raw[i] == '\\': bs.append(int(raw[i+1:i+3], 16)); i += 3
                else: bs.append(ord(raw[i])); i += 1
            return '{{' + ', '.join(str(b) for b in bs) + '}}'
        return ginit_tr.val(v)
    for g in sorted(gneeded):
        gl = mod.globals.get(g)
        if gl is None: raise KeyError('global ' + g)
        ctype = em.ct(gl.ty)
        if gl.init is None:
            gdecl.append('extern %s G_%s;' % (ctype, cid(g))); gdef.append('%s G_%s; /* external */' % (ctype, cid(g)))
        else:
            gdecl.append('extern %s%s G_%s;' % ('const ' if False else '', ctype, cid(g)))
            gdef.append('%s G_%s = %s;' % (ctype, cid(g), cinit(gl.init)))
    # function prototypes
    protos = []; defs = []
    def proto(f):
        ps = ', '.join('%s %s' % (em.ct(t), ('v_' + cid(n)) if n else 'p%d' % i) for i, (t, n) in enumerate(f.params)) or 'void'
        if f.vararg: ps += ', ...'
        return '%s F_%s(%s)' % (em.ct(f.ret), cid(f.name), ps)
    for n in sorted(set(list(fn_text.keys()) + list(externals))):
        protos.append(proto(mod.funcs[n]) + ';')
    for n, (ft, decls, body) in fn_text.items():
        f = mod.funcs[n]
        # unnamed params are %0..%k
        hdr = proto(f); pre = []
        k = 0
        for i, (t, pn) in enumerate(f.params):
            if pn is None:
                pre.append('  %s v_%d = p%d;' % (em.ct(t), k, i)); ft.locals.pop(str(k), None)
            else: ft.locals.pop(pn, None)
            k += 1 if pn is None else 0
        # fix numbering: unnamed params numbered in order among all unnamed values: params come first
        defs.append(hdr + ' {')
        defs += pre
        defs += ['  %s %s;' % (em.ct(t), ft.lname(nm)) for nm, t in ft.locals.items()]
        defs += ft.allocas
        defs += ['  goto L_entry;'] + body + ['}']
    # all struct forward decls
    fw = []
    for k in list(em.emitted_types): pass
    o += ['/* forward */']
    names = set()
    for line in em.decl_order:
        m = re.match(r'struct (\w+) ', line); names.add(m.group(1))
    o += ['struct %s;' % n for n in sorted(names)]
    o += em.decl_order
    o += gdecl + protos
    o += ['#include "models.h"']
    o += gdef + defs
    for e in entries:
        o.append('void %s(void) { F_%s(); }' % (e + '_entry', cid(e)))
    open(outp, 'w').write('\n'.join(o) + '\n')
    unm = sorted(x for x in externals if x not in EXTERNAL_MODELS)
    sys.stderr.write('functions: %d  globals: %d  externals: %d  unmodelled: %s\n' % (len(fn_text), len(gneeded), len(externals), unm))

if __name__ == '__main__':
    main()
