#!/usr/bin/env python3
"""Environment models for engine S.  Every entry is part of the claim (DESIGN.md 2.2); anything not listed here and
not defined in the IR is a hard error ("unmodelled external")."""
import z3
from symex import *
import symex

MODELS = {}
def model(*names):
    def deco(fn):
        for n in names: MODELS[n] = fn
        return fn
    return deco

def THROWN(): return symex.THROWN

# ---------------------------------------------------------------- harness interface
@model('nondet_ulong')
def m_nondet(s, av):
    if s.concrete is not None:
        k = s.extra.get('nd_i', 0); s.extra['nd_i'] = k + 1
        v = s.concrete[k] if k < len(s.concrete) else 0
        s.extra.setdefault('nd_used', []); s.extra['nd_used'] = s.extra['nd_used'] + [v]
        return v & M64
    k = s.extra.get('nd_i', 0); s.extra['nd_i'] = k + 1
    v = z3.BitVec('nd_%d' % k, 64); s.nond.append(v); return v

@model('vp_fork')
def m_fork(s, av): return s.concretize(av[0], 'vp_fork argument')

@model('vp_assume')
def m_assume(s, av):
    c = av[0]
    if is_c(c):
        if c == 0: raise PathEnd('assume')
        return None
    c = z3.simplify(c != 0)
    if z3.is_true(c): return None
    if not s.feasible(c): raise PathEnd('assume')
    s.add(c)
    return None

@model('vp_assert')
def m_assert(s, av):
    c, aid = av[0], av[1]
    aid = aid if is_c(aid) else s.concretize(aid)
    s.stats['asserts'] += 1
    if len(s.dec) < len(s.prefix): return None      # already checked by the splitting pass
    if is_c(c):
        if c == 0: s.violation('assert', 'assertion %d fails' % aid, aid)
        else: s.events.append(('assert', aid, 'concrete'))
        return None
    bad = z3.simplify(c == 0)
    if z3.is_false(bad): s.events.append(('assert', aid, 'folded')); return None
    s.stats['assert_queries'] += 1
    xdir = s.B.get('xcheck_dir')
    if xdir and s.stats['assert_queries'] % s.B.get('xcheck_every', 5) == 1 and s.stats['xcheck_exported'] < s.B.get('xcheck_max', 4):
        # export this query (path condition and negated assertion) for re-decision by a second solver (cvc5)
        try:
            import os
            s.solver.push(); s.solver.add(bad); txt = s.solver.to_smt2(); s.solver.pop()
            verdict = 'sat' if s.feasible(bad) else 'unsat'
            k = s.stats['xcheck_exported']; s.stats['xcheck_exported'] += 1
            fn = os.path.join(xdir, '%s-%d-%d-%d.smt2' % (s.frames[0].code.name, os.getpid(), aid, k))
            open(fn, 'w').write('; expected: %s\n(set-logic ALL)\n' % verdict + txt)
        except Exception: pass
    if s.feasible(bad):
        s.solver.push(); s.solver.add(bad); m = None
        if s.check(): m = s.solver.model()
        s.solver.pop()
        s.violation('assert', 'assertion %d fails' % aid, aid, m)
        ok = z3.Not(bad)
        if not s.feasible(ok): raise PathEnd('assert-always-fails')
        s.add(ok)
    else:
        s.events.append(('assert', aid, 'proved'))
    return None

@model('vp_observe')
def m_observe(s, av):
    s.events.append(('observe', av[0], av[1])); return None

@model('vp_done')
def m_done(s, av):
    # witness: the end of the harness is reachable under the path condition (the twin's assert(false) would be violated)
    if s.concrete is None and not s.check(): raise PathEnd('infeasible')
    s.events.append(('done',)); return None

@model('vp_check_range')
def m_check_range(s, av):
    # [ptr, ptr+len) must lie inside one live allocation for every value of len (natively: the range is written, under ASan)
    p = s.concretize(av[0], 'address'); n = av[1]
    i = s.find_alloc(p)
    if i is None or not s.ainfo[i][1]: raise Violation('memory', 'vp_check_range: %#x is not inside a live block' % p)
    base = s.abase[i]; size = s.ainfo[i][0]
    bad = z3.UGT(bv(n, 64) + (p - base), bv(size, 64))
    bad = z3.simplify(z3.Or(bad, z3.UGT(bv(n, 64), z3.BitVecVal(1 << 40, 64))))
    s.stats['asserts'] += 1
    if z3.is_true(bad) or (not z3.is_false(bad) and s.feasible(bad)):
        m = None
        if not z3.is_true(bad):
            s.solver.push(); s.solver.add(bad)
            if s.check(): m = s.solver.model()
            s.solver.pop()
        s.violation('memory', 'range of %s bytes at offset %d can extend past the end of its block (allocated at %s)' % ('symbolic' if not is_c(n) else n, p - base, s.ainfo[i][3]), None, m)
        if not z3.is_true(bad): s.add(z3.Not(bad))
        else: raise PathEnd('infeasible')
    else: s.events.append(('assert', 9001, 'range'))
    return None

@model('vp_mark')
def m_mark(s, av):
    s.extra['leak_mark'] = s.heap; return None

@model('vp_leakcheck')
def m_leakcheck(s, av):
    # every heap block allocated since vp_mark() must have been released
    mark = s.extra.get('leak_mark', 0); live = []
    import bisect
    i = bisect.bisect_left(s.abase, mark)
    for k in range(i, len(s.abase)):
        inf = s.ainfo[k]
        if inf[2] == 'heap' and inf[1]: live.append((s.abase[k], inf[0], inf[3]))
    s.stats['leakchecks'] += 1
    if live:
        sites = {}
        for b, n, site in live: sites.setdefault(site, [0, 0]); sites[site][0] += 1; sites[site][1] += n
        top = sorted(sites.items(), key=lambda kv: -kv[1][1])[:4]
        s.violation('leak', '%d block(s) / %d bytes not released; allocated in: %s' % (len(live), sum(n for _, n, _ in live), '; '.join('%s x%d' % (k, v[0]) for k, v in top)))
    else:
        s.events.append(('assert', 9000, 'leakcheck'))
    return None

@model('vp_phase')
def m_phase(s, av):
    # C20 isolation bookkeeping: 1 = building the other Lexicon, 2 = operating on this one (accesses classified), 0 = off
    ph = s.concretize(av[0], 'phase')
    if ph == 1: s.extra['iso_lo'] = s.heap
    if ph == 2: s.extra['iso_hi'] = s.heap
    s.extra['iso_phase'] = ph
    return None

@model('vp_symbolic')
def m_symbolic(s, av): return 1

# ---------------------------------------------------------------- allocation
@model('_Znwm', '_Znam', 'malloc', '_ZnwmSt11align_val_t')
def m_new(s, av):
    n = av[0]
    if not is_c(n) and s.B.get('symalloc'):
        # bounded symbolic allocation: the size stays a term (must be provably below 2^31); accesses are checked by query
        if s.feasible(z3.UGE(n, 1 << 31)): raise BoundExceeded('symbolic allocation size may exceed 2^31')
        site = s.frames[-1].code.name if s.frames else None
        s.stats['allocs'] += 1
        return s.alloc(z3.simplify(n), 'heap', site)
    n = s.concretize(av[0], 'allocation size')
    if n > (1 << 31): raise BoundExceeded('allocation of %d bytes' % n)
    site = s.frames[-1].code.name if s.frames else None
    if s.B.get('alloc_reuse'):
        # allocator that hands freed blocks out again (LIFO per size, like the fast bins of a real malloc): a later object can
        # have the address of a dead one.  The free lists are immutable tuples in s.extra, so snapshots need no extra care.
        fl = s.extra.get(('fl', max(n, 1)))
        if fl:
            a = fl[-1]; s.extra[('fl', max(n, 1))] = fl[:-1]
            i = s.find_alloc(a); inf = s.ainfo[i]
            inf[1] = True; inf[3] = site; s.trail.append(('live', a, False)); s.stats['allocs'] += 1; s.stats['reused_blocks'] += 1
            return a
    a = s.alloc(max(n, 1), 'heap', site)
    s.stats['allocs'] += 1
    return a

@model('_ZdlPv', '_ZdaPv', '_ZdlPvm', 'free', '_ZdaPvm', '_ZdlPvSt11align_val_t', '_ZdlPvmSt11align_val_t')
def m_delete(s, av):
    a = s.concretize(av[0], 'address')
    if a == 0: return None
    i = s.find_alloc(a)
    if i is None or s.abase[i] != a or s.ainfo[i][2] != 'heap':
        raise Violation('memory', 'free of %#x which is not the start of a heap block' % a)
    inf = s.ainfo[i]
    if not inf[1]: raise Violation('memory', 'double free of %#x' % a)
    inf[1] = False; s.trail.append(('live', a, True)); s.stats['frees'] += 1
    if s.B.get('alloc_reuse') and type(inf[0]) is int:
        k = ('fl', inf[0]); s.extra[k] = s.extra.get(k, ()) + (a,)
    return None

# ---------------------------------------------------------------- libc byte functions
@model('memcmp', 'bcmp')
def m_memcmp(s, av):
    a, b, n = av
    n = s.concretize(n, 'memcmp length'); a = s.concretize(a, 'address'); b = s.concretize(b, 'address')
    if n == 0: return 0
    s.check_access(a, n, False); s.check_access(b, n, False)
    xs = [s.raw_load(a + i, 1) for i in range(n)]; ys = [s.raw_load(b + i, 1) for i in range(n)]
    r = 0
    for x, y in reversed(list(zip(xs, ys))):
        if is_c(x) and is_c(y):
            if x != y: r = 0xffffffff if x < y else 1
            continue
        X = bv(x, 8); Y = bv(y, 8)
        r = z3.If(X == Y, bv(r, 32), z3.If(z3.ULT(X, Y), z3.BitVecVal(0xffffffff, 32), z3.BitVecVal(1, 32)))
    return r if is_c(r) else z3.simplify(r)

@model('strlen')
def m_strlen(s, av):
    a = s.concretize(av[0], 'address'); n = 0
    while True:
        b = s.load(a + n, 1)
        if not is_c(b):
            lab = s.decide([(0, b == 0), (1, b != 0)])
            if lab == 0: return n
        elif b == 0: return n
        n += 1
        if n > 4096: raise BoundExceeded('strlen')

@model('memchr')
def m_memchr(s, av):
    a, c, n = av
    a = s.concretize(a, 'address'); n = s.concretize(n, 'length'); c = c & 255 if is_c(c) else z3.Extract(7, 0, c)
    for i in range(n):
        b = s.load(a + i, 1)
        if is_c(b) and is_c(c):
            if b == c: return a + i
        else:
            lab = s.decide([(1, bv(b, 8) == bv(c, 8)), (0, bv(b, 8) != bv(c, 8))])
            if lab: return a + i
    return 0

@model('memcpy', 'memmove')
def m_memcpy(s, av):
    s.intrinsic('llvm.memcpy', av); return av[0]
@model('memset')
def m_memset(s, av):
    s.intrinsic('llvm.memset', av); return av[0]

# ---------------------------------------------------------------- std::hash
def murmur64(data, seed):
    """libstdc++ std::_Hash_bytes for 64-bit size_t (MurmurHash64A variant)."""
    M = (1 << 64) - 1; mul = ((0xc6a4a793 << 32) + 0x5bd1e995) & M
    n = len(data); h = (seed ^ (n * mul)) & M
    al = n & ~7
    def mix(v): return v ^ (v >> 47)
    for i in range(0, al, 8):
        d = int.from_bytes(bytes(data[i:i + 8]), 'little')
        d = (mix((d * mul) & M) * mul) & M
        h ^= d; h = (h * mul) & M
    if n & 7:
        d = 0
        for k in range((n & 7) - 1, -1, -1): d = ((d << 8) + data[al + k]) & M
        h ^= d; h = (h * mul) & M
    h = (mix(h) * mul) & M
    return mix(h)

@model('_ZSt11_Hash_bytesPKvmm')
def m_hash(s, av):
    """std::hash of a byte string.  Concrete contents get the real libstdc++ value.  Symbolic contents get a fresh 64-bit
    variable constrained (Ackermann expansion, pure bit-vector) to be a function of (length, content): it equals the value of
    every earlier call with equal content on this path, symbolic or concrete, and later concrete calls are tied to it the same
    way.  Collisions and orderings between different contents are the solver's choice."""
    a, n, seed = av
    n = s.concretize(n, 'hash length'); a = s.concretize(a, 'address'); seed = s.concretize(seed, 'hash seed')
    bs = [s.load(a + i, 1) for i in range(n)]
    syms = s.extra.get('hash_syms', ()); concs = s.extra.get('hash_concs', ())
    if n == 0 or all(is_c(b) for b in bs):
        h = murmur64(bs, seed)
        key = (n, bytes(bs))
        if n and key not in [c[0] for c in concs]:
            s.extra['hash_concs'] = concs + ((key, h),)
            if s.concrete is None:
                cval = z3.BitVecVal(int.from_bytes(bytes(bs), 'big'), 8 * n)
                for (m, arg, hv) in syms:
                    if m == n: s.add(z3.Implies(arg == cval, hv == z3.BitVecVal(h, 64)))
        return h
    arg = z3.Concat(*[bv(b, 8) for b in bs]) if n > 1 else bv(bs[0], 8)
    for (m, parg, hv) in syms:
        if m == n and parg.eq(arg): return hv
    hv = z3.BitVec('hash_%d' % len(syms), 64)
    cons = []
    for (m, parg, phv) in syms:
        if m == n: cons.append(z3.Implies(parg == arg, phv == hv))
    for ((m, cb), h) in concs:
        if m == n: cons.append(z3.Implies(arg == z3.BitVecVal(int.from_bytes(cb, 'big'), 8 * n), hv == z3.BitVecVal(h, 64)))
    s.extra['hash_syms'] = syms + ((n, arg, hv),)
    if cons: s.add(z3.And(*cons) if len(cons) > 1 else cons[0])
    return hv

# ---------------------------------------------------------------- std::_Rb_tree out-of-line helpers (unbalanced BST model on the libstdc++ node layout)
# node: +0 color(i32) +8 parent +16 left +24 right ; header: parent=root, left=leftmost, right=rightmost
def _P(s, a, o): return s.concretize(s.load(a + o, 8), 'tree link')

@model('_ZSt29_Rb_tree_insert_and_rebalancebPSt18_Rb_tree_node_baseS0_RS_')
def m_rb_insert(s, av):
    left, x, p, h = av
    left = s.concretize(left, 'insert_left flag'); x = s.concretize(x, 'address'); p = s.concretize(p, 'address'); h = s.concretize(h, 'address')
    s.store(x + 8, 8, p); s.store(x + 16, 8, 0); s.store(x + 24, 8, 0); s.store(x, 4, 0)
    if left & 1:
        s.store(p + 16, 8, x)
        if p == h: s.store(h + 8, 8, x); s.store(h + 24, 8, x); s.store(x, 4, 1)
        elif p == _P(s, h, 16): s.store(h + 16, 8, x)
    else:
        s.store(p + 24, 8, x)
        if p == _P(s, h, 24): s.store(h + 24, 8, x)
    return None

@model('_ZSt18_Rb_tree_incrementPSt18_Rb_tree_node_base', '_ZSt18_Rb_tree_incrementPKSt18_Rb_tree_node_base')
def m_rb_inc(s, av):
    x = s.concretize(av[0], 'address'); k = 0
    if _P(s, x, 24) != 0:
        x = _P(s, x, 24)
        while _P(s, x, 16) != 0:
            x = _P(s, x, 16); k += 1
            if k > 10000: raise BoundExceeded('rb increment')
    else:
        y = _P(s, x, 8)
        while x == _P(s, y, 24):
            x = y; y = _P(s, y, 8); k += 1
            if k > 10000: raise BoundExceeded('rb increment')
        if _P(s, x, 24) != y: x = y
    return x

@model('_ZSt18_Rb_tree_decrementPSt18_Rb_tree_node_base', '_ZSt18_Rb_tree_decrementPKSt18_Rb_tree_node_base')
def m_rb_dec(s, av):
    x = s.concretize(av[0], 'address'); k = 0
    col = s.concretize(s.load(x, 4), 'colour')
    # header test: libstdc++ uses "red && parent->parent == x"; our model marks only the root black (1) and everything else red (0),
    # so the header (never written by us, initialised red=0 by _Rb_tree_header) is recognised the same way.
    if col == 0 and _P(s, x, 8) != 0 and _P(s, _P(s, x, 8), 8) == x:
        return _P(s, x, 24)
    if _P(s, x, 16) != 0:
        y = _P(s, x, 16)
        while _P(s, y, 24) != 0:
            y = _P(s, y, 24); k += 1
            if k > 10000: raise BoundExceeded('rb decrement')
        return y
    y = _P(s, x, 8)
    while x == _P(s, y, 16):
        x = y; y = _P(s, y, 8); k += 1
        if k > 10000: raise BoundExceeded('rb decrement')
    return y

# ---------------------------------------------------------------- exceptions
def _ti_name(s, a):
    n = s.P.addr2g.get(a)
    if n is None: raise Violation('memory', 'throw with unknown type_info %#x' % a)
    return n

@model('__cxa_allocate_exception')
def m_cxa_alloc(s, av):
    n = s.concretize(av[0], 'size'); return s.alloc(max(n, 1), 'heap', '__cxa_allocate_exception')

@model('__cxa_free_exception')
def m_cxa_free(s, av):
    a = av[0]; i = s.find_alloc(a)
    if i is not None and s.abase[i] == a and s.ainfo[i][1]: s.ainfo[i][1] = False; s.trail.append(('live', a, True))
    return None

@model('__cxa_throw')
def m_cxa_throw(s, av):
    obj = s.concretize(av[0], 'address'); ti = _ti_name(s, s.concretize(av[1], 'address'))
    s.stats['throws'] += 1
    s.throw(obj, ti); return symex.THROWN

@model('__cxa_begin_catch')
def m_begin_catch(s, av):
    s.extra['caught'] = s.extra.get('caught', ()) + (s.exc,)
    return av[0]

@model('__cxa_end_catch')
def m_end_catch(s, av):
    c = s.extra.get('caught', ())
    if c:
        obj, ti = c[-1]; s.extra['caught'] = c[:-1]
        i = s.find_alloc(obj)
        if i is not None and s.abase[i] == obj and s.ainfo[i][1]: s.ainfo[i][1] = False; s.trail.append(('live', obj, True))
    return None

@model('__cxa_rethrow')
def m_rethrow(s, av):
    c = s.extra.get('caught', ())
    if not c: raise Violation('terminate', '__cxa_rethrow with no exception')
    obj, ti = c[-1]; s.extra['caught'] = c[:-1]
    s.throw(obj, ti); return symex.THROWN

@model('__cxa_pure_virtual')
def m_pure(s, av): raise Violation('terminate', 'pure virtual function called')
@model('_ZSt9terminatev', '__clang_call_terminate', 'abort', '__cxa_call_unexpected')
def m_terminate(s, av): raise Violation('terminate', 'std::terminate reached')
@model('__assert_fail')
def m_assert_fail(s, av): raise Violation('terminate', 'assert() failed in library code')

def _std_throw(ti):
    def fn(s, av):
        obj = s.alloc(16, 'heap', 'std::__throw'); s.stats['throws'] += 1
        s.throw(obj, ti); return symex.THROWN
    return fn
for _n, _ti in [('_ZSt20__throw_length_errorPKc', '_ZTISt12length_error'), ('_ZSt24__throw_out_of_range_fmtPKcz', '_ZTISt12out_of_range'),
                ('_ZSt20__throw_out_of_rangePKc', '_ZTISt12out_of_range'), ('_ZSt19__throw_logic_errorPKc', '_ZTISt11logic_error'),
                ('_ZSt24__throw_invalid_argumentPKc', '_ZTISt16invalid_argument'), ('_ZSt20__throw_domain_errorPKc', '_ZTISt12domain_error'),
                ('_ZSt17__throw_bad_allocv', '_ZTISt9bad_alloc'), ('_ZSt28__throw_bad_array_new_lengthv', '_ZTISt20bad_array_new_length'),
                ('_ZSt25__throw_bad_function_callv', '_ZTISt17bad_function_call'), ('_ZSt26__throw_bad_variant_accessPKc', '_ZTISt18bad_variant_access'),
                ('_ZSt26__throw_bad_variant_accessb', '_ZTISt18bad_variant_access'),
                ('_ZSt16__throw_bad_castv', '_ZTISt8bad_cast'), ('_ZSt21__throw_runtime_errorPKc', '_ZTISt13runtime_error'),
                ('__cxa_bad_cast', '_ZTISt8bad_cast'), ('__cxa_bad_typeid', '_ZTISt10bad_typeid')]:
    MODELS[_n] = _std_throw(_ti)

@model('_ZNSt11logic_errorC1EPKc', '_ZNSt11logic_errorC2EPKc', '_ZNSt12domain_errorC1EPKc', '_ZNSt12domain_errorC2EPKc',
       '_ZNSt12out_of_rangeC1EPKc', '_ZNSt16invalid_argumentC1EPKc', '_ZNSt12length_errorC1EPKc', '_ZNSt13runtime_errorC1EPKc',
       '_ZNSt11logic_errorD1Ev', '_ZNSt11logic_errorD2Ev', '_ZNSt12domain_errorD1Ev', '_ZNSt12domain_errorD2Ev', '_ZNSt12out_of_rangeD1Ev',
       '_ZNSt16invalid_argumentD1Ev', '_ZNSt12length_errorD1Ev', '_ZNSt13runtime_errorD1Ev', '_ZNSt9exceptionD2Ev', '_ZNSt9exceptionD1Ev')
def m_exc_ctor(s, av):
    # storage only: mark the object bytes initialised (vptr slot + message pointer); message text is not modelled
    a = s.concretize(av[0], 'address')
    if len(av) > 1:
        s.store(a, 8, 0xE0C0DE00); s.store(a + 8, 8, av[1])
    return None

@model('__cxa_guard_acquire')
def m_guard_acq(s, av):
    a = s.concretize(av[0], 'address'); g = s.load(a, 1)
    g = s.concretize(g, 'guard')
    s.events.append(('guard', a))
    if s.extra.get('iso_phase') == 2: raise Violation('isolation', 'function-local static initialisation guard used while operating on a Lexicon')
    return 0 if g else 1
@model('__cxa_guard_release')
def m_guard_rel(s, av):
    a = s.concretize(av[0], 'address'); s.store(a, 1, 1); return None
@model('__cxa_guard_abort')
def m_guard_abort(s, av): return None
@model('__cxa_atexit')
def m_atexit(s, av): return 0

# ---------------------------------------------------------------- RTTI: dynamic_cast
def _ti_bases(P, name):
    """[(base typeinfo name, offset, is_virtual, is_public)] read from the IR initialiser of a type_info object (Itanium ABI)"""
    g = P.m.globals.get(name)
    if g is None or g.init is None or g.init.kind != 'agg': return []
    els = g.init.els
    def gname(e):
        while e.kind in ('cast', 'gep'): e = e.val if e.kind == 'cast' else e.base
        return e.name if e.kind == 'global' else None
    kind = gname(els[0]) or ''
    if '__si_class_type_info' in kind: return [(gname(els[2]), 0, False, True)]
    if '__vmi_class_type_info' in kind:
        n = P.const(els[3]); out = []
        for i in range(n):
            b = gname(els[4 + 2 * i]); of = P.const(els[5 + 2 * i]); off = sx(of, 64) >> 8
            out.append((b, off, bool(of & 1), bool(of & 2)))
        return out
    return []

@model('__dynamic_cast')
def m_dynamic_cast(s, av):
    src = s.concretize(av[0], 'address'); dst_ti = s.concretize(av[2], 'address')
    if src == 0: return 0
    P = s.P
    vptr = s.concretize(s.load(src, 8), 'vptr')
    off_to_top = sx(s.concretize(s.load(vptr - 16, 8), 'offset-to-top'), 64); ti = s.concretize(s.load(vptr - 8, 8), 'typeinfo')
    most = src + off_to_top
    mname = P.addr2g.get(ti); dname = P.addr2g.get(dst_ti)
    if mname is None or dname is None: raise BoundExceeded('dynamic_cast: type_info object not found')
    found = set(); stack = [(mname, 0, True)]; steps = 0
    while stack:
        name, off, pub = stack.pop(); steps += 1
        if steps > 2000: raise BoundExceeded('dynamic_cast: class hierarchy too large')
        if name == dname:
            if pub: found.add(off)
            continue
        for b, boff, virt, bpub in _ti_bases(P, name):
            if b is None: continue
            if virt: raise BoundExceeded('dynamic_cast through a virtual base is not modelled')
            stack.append((b, off + boff, pub and bpub))
    if len(found) != 1: return 0
    return (most + found.pop()) & M64

# ---------------------------------------------------------------- libstdc++ hash-table growth policy (out of line in libstdc++.so)
# Contract-equivalent models for std::unordered_map/set: the table never grows (every bucket count is a valid one; only the
# complexity differs), so all elements live in the initial bucket array.
@model('_ZNKSt8__detail20_Prime_rehash_policy14_M_need_rehashEmmm')
def m_need_rehash(s, av): return ('agg', [0, 0])
@model('_ZNKSt8__detail20_Prime_rehash_policy11_M_next_bktEm')
def m_next_bkt(s, av):
    n = s.concretize(av[1], 'bucket hint'); return n if n > 0 else 1
