#!/usr/bin/env python3
"""Engine S, part 2: the per-path machine state, the interpreter loop and DFS exploration."""
import sys, time, collections, bisect
from symex import *
import z3

class Snapshot:
    __slots__ = ('frames', 'trail_len', 'nalloc', 'heap', 'stack', 'nnond', 'nevents', 'ndec', 'scope', 'steps', 'exc', 'nout', 'extra', 'option')

class Exec:
    def __init__(s, prog, bounds=None, concrete=None, hooks=None):
        s.P = prog; s.L = prog.L
        b = dict(steps=3000000, depth=400, fanout=128, loop=100000, solver_ms=10000)
        if bounds: b.update(bounds)
        s.B = b
        s.concrete = concrete          # list of nondet values (concrete differential mode) or None
        s.hooks = hooks or {}
        s.stats = collections.Counter()
        s.solver_time = 0.0
        s.funcs_run = set()
        s.deadline = None
        s.models_hit = set()
        import models, models_io
        s.models = models.MODELS

    # ------------------------------------------------------------ path state
    def reset(s):
        s.mem = {}; s.trail = []
        s.abase = []; s.ainfo = []          # heap+stack allocations: parallel sorted lists (base) / [size, live, kind, site]
        s.heap = HEAP_BASE; s.stack = STACK_BASE
        s.ginit = set(); s.known = {}
        s.solver = z3.Solver(); s.solver.set('timeout', s.B['solver_ms']); s.scope = 0
        s.nond = []; s.events = []; s.dec = []
        s.frames = []; s.steps = 0
        s.exc = None                        # in-flight / caught exception (obj, typeinfo name)
        s.out = []                          # model stream output items
        s.model = None                      # cached model of the path condition
        s.extra = {}                        # model-private state (copied at snapshots)
        s.save = []                         # DFS stack of snapshots
        s.cur_unwind = None; s.retval = None; s.last_dec_step = -1; s.dec_count = 0

    # ------------------------------------------------------------ memory
    def alloc(s, n, kind, site=None):
        if kind == 'stack':
            base = s.stack; s.stack += (n + 31) // 16 * 16 + 16
        elif type(n) is not int:
            base = s.heap; s.heap += (1 << 32)          # symbolic size: reserve address space for the stated maximum
        else:
            base = s.heap; s.heap += (n + 31) // 16 * 16 + 32
        # stack addresses < heap addresses; keep a single sorted list: stack entries inserted before heap ones
        i = bisect.bisect_left(s.abase, base)
        s.abase.insert(i, base); s.ainfo.insert(i, [n, True, kind, site])
        s.trail.append(('alloc', base))
        return base

    def find_alloc(s, a):
        i = bisect.bisect_right(s.abase, a) - 1
        if i < 0: return None
        return i

    def check_access(s, a, n, write):
        if a >= HEAP_BASE or a >= STACK_BASE:
            if a >= FUNC_BASE: raise Violation('memory', 'access to code address %#x' % a)
            i = bisect.bisect_right(s.abase, a) - 1
            if i >= 0:
                inf = s.ainfo[i]
                if type(inf[0]) is not int:      # block of symbolic size (bounded symbolic allocation): containment is a solver query
                    if s.feasible(z3.UGT(z3.BitVecVal(a + n - s.abase[i], 64), inf[0])):
                        raise Violation('memory', 'out-of-bounds %s of %d bytes at offset %d of a block whose size can be smaller (allocated at %s)' % ('write' if write else 'read', n, a - s.abase[i], inf[3]))
                    return
                if a + n <= s.abase[i] + inf[0]:
                    if not inf[1]: raise Violation('memory', ('use after free' if inf[2] != 'stack' else 'use of dead stack slot') + ' at %#x (block of %d bytes allocated at %s)' % (a, inf[0], inf[3]))
                    h = s.hooks.get('access')
                    if h: h(s, a, n, write, ('heap', i))
                    return
            raise Violation('memory', 'out-of-bounds %s of %d bytes at %#x' % ('write' if write else 'read', n, a))
        if a < GLOBAL_BASE: raise Violation('memory', 'null pointer %s (address %#x)' % ('write' if write else 'read', a))
        P = s.P
        gi = bisect.bisect_right(P.gbases, a) - 1
        if gi < 0 or a + n > P.gbases[gi] + P.gsizes[gi]: raise Violation('memory', 'out-of-bounds access to global region at %#x' % a)
        if gi not in s.ginit:
            s.ginit.add(gi); s.trail.append(('ginit', gi))
            im = P.global_image(gi)
            for k, v in im.items():
                if k not in s.mem: s.mem[k] = v; s.trail.append(('mem', k, None))
        g = P.m.globals[P.gnames[gi]]
        if write and g.const: raise Violation('memory', 'write to constant global ' + P.gnames[gi])
        h = s.hooks.get('access')
        if h: h(s, a, n, write, ('global', gi))

    def store(s, a, n, v):
        s.check_access(a, n, True)
        s.raw_store(a, n, v)
    def raw_store(s, a, n, v):
        mem = s.mem
        # kill / split overlapping cells
        for d in range(-15, n):
            if d == 0: continue
            c = mem.get(a + d)
            if c is not None and (d > 0 or d + c[0] > 0): s.split(a + d)
        c = mem.get(a)
        if c is not None and c[0] != n: s.split(a)
        if n > 16: raise ValueError('wide store')
        s.trail.append(('mem', a, mem.get(a)))
        mem[a] = (n, v)
    def split(s, a):
        n, v = s.mem[a]
        s.trail.append(('mem', a, (n, v)))
        del s.mem[a]
        for i in range(n):
            b = (v >> (8 * i)) & 255 if is_c(v) else z3.simplify(z3.Extract(8 * i + 7, 8 * i, v))
            s.trail.append(('mem', a + i, None))
            s.mem[a + i] = (1, b)
    def load(s, a, n):
        s.check_access(a, n, False)
        return s.raw_load(a, n)
    def raw_load(s, a, n):
        mem = s.mem
        c = mem.get(a)
        if c is not None and c[0] == n: return c[1]
        bs = []
        for i in range(n):
            c = mem.get(a + i)
            if c is None:
                found = None
                for d in range(1, 16):
                    cc = mem.get(a + i - d)
                    if cc is not None:
                        if cc[0] > d: found = (cc, d)
                        break
                if found is None:
                    s.stats['uninit_reads'] += 1
                    b = s.fresh(8, 'uninit'); s.trail.append(('mem', a + i, None)); mem[a + i] = (1, b); bs.append(b); continue
                (cn, cv), d = found
                bs.append((cv >> (8 * d)) & 255 if is_c(cv) else z3.Extract(8 * d + 7, 8 * d, cv)); continue
            if c[0] == 1: bs.append(c[1])
            else: bs.append(c[1] & 255 if is_c(c[1]) else z3.Extract(7, 0, c[1]))
        if all(is_c(b) for b in bs): return sum(b << (8 * i) for i, b in enumerate(bs))
        if n == 1: return bs[0]
        return z3.simplify(z3.Concat(*[bv(b, 8) for b in reversed(bs)]))

    def load_bytes(s, a, n):
        return [s.load(a + i, 1) for i in range(n)]

    def fresh(s, bits, tag):
        v = z3.BitVec('%s_%d' % (tag, len(s.nond)), bits); s.nond.append(v); return v

    # ------------------------------------------------------------ solver
    def _check_retry(s, *extra):
        """solver.check with two retries at a longer time-out: the 10 s limit is wall-clock time and a loaded machine can
        exhaust it on an easy query; an answer that stays unknown is reported as such (inconclusive), never guessed."""
        r = s.solver.check(*extra)
        if r == z3.unknown:
            for k in (3, 9):
                s.stats['solver_retries'] += 1
                s.solver.set('timeout', s.B['solver_ms'] * k)
                r = s.solver.check(*extra)
                if r != z3.unknown: break
            s.solver.set('timeout', s.B['solver_ms'])
        return r
    def check(s, *extra):
        t = time.time(); s.stats['queries'] += 1
        r = s._check_retry(*extra)
        s.solver_time += time.time() - t
        if r == z3.unknown: raise BoundExceeded('solver returned unknown: ' + s.solver.reason_unknown())
        return r == z3.sat
    def get_model(s):
        if s.model is None:
            if not s.check(): return None
            s.model = s.solver.model()
        return s.model
    def model_values(s):
        m = s.get_model()
        if m is None: return None
        out = []
        for v in s.nond:
            if str(v).startswith('nd_'): out.append(m.eval(v, model_completion=True).as_long())
        return out
    def add(s, c):
        s.solver.push(); s.scope += 1; s.solver.add(c)
        if s.model is not None:
            if not z3.is_true(s.model.eval(c, model_completion=True)): s.model = None
    def feasible(s, c):
        """is pc /\\ c satisfiable?  uses the cached model first."""
        if s.model is not None and z3.is_true(s.model.eval(c, model_completion=True)): return True
        t = time.time(); s.stats['queries'] += 1
        r = s._check_retry(c)
        s.solver_time += time.time() - t
        if r == z3.unknown: raise BoundExceeded('solver returned unknown')
        if r == z3.sat:
            if s.model is None: s.model = s.solver.model()
            return True
        return False

    # ------------------------------------------------------------ decisions / DFS
    def _dec_in_instr(s):
        """number of decisions already taken by the instruction being executed"""
        return s.dec_count if s.last_dec_step == s.steps else 0
    def _note_dec(s):
        if s.last_dec_step == s.steps: s.dec_count += 1
        else: s.last_dec_step = s.steps; s.dec_count = 1

    def snapshot(s, label):
        """State at the start of the current instruction (rule: inside one instruction every decision precedes every side
        effect), to be resumed by re-executing that instruction with decisions forced to s.dec + [label]."""
        sn = Snapshot()
        sn.frames = [f.clone() for f in s.frames]
        sn.frames[-1].pc -= 1
        k = s._dec_in_instr()
        sn.trail_len = len(s.trail); sn.heap = s.heap; sn.stack = s.stack; sn.nnond = len(s.nond); sn.nevents = len(s.events)
        sn.ndec = len(s.dec) - k; sn.scope = s.scope - k; sn.steps = s.steps - 1; sn.exc = s.exc; sn.nout = len(s.out)
        sn.extra = dict(s.extra)
        sn.option = list(s.dec) + [label]
        return sn
    def restore(s, sn):
        tr = s.trail; mem = s.mem
        while len(tr) > sn.trail_len:
            e = tr.pop(); k = e[0]
            if k == 'mem':
                if e[2] is None: mem.pop(e[1], None)
                else: mem[e[1]] = e[2]
            elif k == 'alloc':
                i = bisect.bisect_left(s.abase, e[1]); del s.abase[i]; del s.ainfo[i]
            elif k == 'live':
                i = bisect.bisect_left(s.abase, e[1]); s.ainfo[i][1] = e[2]
            elif k == 'ginit': s.ginit.discard(e[1])
            elif k == 'known': s.known.pop(e[1], None)
        s.frames[:] = sn.frames; s.heap = sn.heap; s.stack = sn.stack
        del s.nond[sn.nnond:]; del s.events[sn.nevents:]; del s.dec[sn.ndec:]; del s.out[sn.nout:]
        while s.scope > sn.scope: s.solver.pop(); s.scope -= 1
        s.steps = sn.steps; s.exc = sn.exc; s.extra = sn.extra; s.model = None
        s.prefix = sn.option; s.last_dec_step = -1; s.cur_unwind = None

    def decide(s, options):
        """options: list of (label, constraint).  Continue with the first feasible one, save the others."""
        k = len(s.dec)
        if k < len(s.prefix):
            lab = s.prefix[k]
            for l, c in options:
                if l == lab:
                    s._note_dec(); s.dec.append(lab); s.add(c); return lab
            raise PathEnd('infeasible-prefix')
        if s.split_depth is not None and k >= s.split_depth:
            raise PathEnd('split')
        feas = [(l, c) for l, c in options if s.feasible(c)]
        if not feas: raise PathEnd('infeasible')
        for l, c in reversed(feas[1:]):
            s.save.append(s.snapshot(l))
        lab, c = feas[0]
        s._note_dec(); s.dec.append(lab); s.add(c)
        return lab

    def decide_bool(s, c1):
        """branch on a 1-bit value.  Every symbolic branch records one decision entry (also when only one side is feasible,
        so that replays from a prefix stay aligned); the outcome is remembered per condition (hash-consed AST) so that the
        same comparison evaluated again on this path costs neither a solver query nor an entry."""
        b = z3.simplify(c1 == 1)
        if z3.is_true(b): return True
        if z3.is_false(b): return False
        neg = False
        if z3.is_not(b): b = b.arg(0); neg = True
        k = b.get_id(); kn = s.known.get(k)
        if kn is not None:
            s.stats['known_hits'] += 1
            return kn[1] != neg
        nb = z3.Not(b); kdec = len(s.dec)
        if kdec < len(s.prefix):
            r = bool(s.prefix[kdec])
        else:
            if s.split_depth is not None and kdec >= s.split_depth: raise PathEnd('split')
            ft = s.feasible(b); ff = s.feasible(nb)
            if ft and ff: s.save.append(s.snapshot(False)); r = True
            elif ft: r = True
            elif ff: r = False
            else: raise PathEnd('infeasible')
        s._note_dec(); s.dec.append(r); s.add(b if r else nb)
        s.known[k] = (b, r); s.trail.append(('known', k))
        return r != neg

    def implied_bool(s, c1):
        """True/False if the 1-bit value is determined by the path condition (remembered), None if both outcomes are feasible.
        Never forks and never records a decision entry."""
        b = z3.simplify(c1 == 1)
        if z3.is_true(b): return True
        if z3.is_false(b): return False
        neg = False
        if z3.is_not(b): b = b.arg(0); neg = True
        k = b.get_id(); kn = s.known.get(k)
        if kn is not None: return kn[1] != neg
        ki = s.known.get(('i', k))
        if ki is not None: return None
        ft = s.feasible(b); ff = s.feasible(z3.Not(b))
        if ft and ff:
            s.known[('i', k)] = (b, None); s.trail.append(('known', ('i', k))); return None
        if not ft and not ff: raise PathEnd('infeasible')
        s.known[k] = (b, ft); s.trail.append(('known', k))
        return ft != neg

    def concretize(s, v, what='value'):
        if is_c(v): return v
        v = z3.simplify(v)
        if z3.is_bv_value(v): return v.as_long()
        k = len(s.dec)
        if k < len(s.prefix):
            val = s.prefix[k]; s._note_dec(); s.dec.append(val); s.add(v == val); return val
        if s.split_depth is not None and k >= s.split_depth: raise PathEnd('split')
        if s.concrete is not None: raise BoundExceeded('symbolic value in concrete mode')
        vals = []; t = time.time()
        s.solver.push()
        while True:
            s.stats['queries'] += 1
            r = s._check_retry()
            if r == z3.unknown: s.solver.pop(); raise BoundExceeded('solver unknown in concretize')
            if r != z3.sat: break
            x = s.solver.model().eval(v, model_completion=True).as_long(); vals.append(x); s.solver.add(v != x)
            if len(vals) > s.B['fanout']:
                s.solver.pop()
                if what in ('address', 'function pointer', 'vptr') and s._depends_on_uninit(v):
                    raise Violation('memory', 'an %s read from storage that was never initialised is used' % what)
                raise BoundExceeded('fan-out bound exceeded resolving symbolic %s' % what)
        s.solver.pop(); s.solver_time += time.time() - t
        if not vals: raise PathEnd('infeasible')
        vals.sort()
        for x in reversed(vals[1:]):
            s.save.append(s.snapshot(x))
        s._note_dec(); s.dec.append(vals[0]); s.add(v == vals[0]); return vals[0]

    def _depends_on_uninit(s, e):
        """does the term mention a variable that stands for never-initialised memory?"""
        seen = set(); todo = [e]; n = 0
        while todo and n < 20000:
            x = todo.pop(); n += 1
            i = x.get_id()
            if i in seen: continue
            seen.add(i)
            if z3.is_const(x) and x.decl().kind() == z3.Z3_OP_UNINTERPRETED:
                if x.decl().name().startswith('uninit'): return True
                continue
            todo.extend(x.children())
        return False

    # ------------------------------------------------------------ values
    def binop(s, op, n, a, b):
        if type(a) is int and type(b) is int: return binop_c(op, n, a, b)
        if op in ('udiv', 'urem', 'sdiv', 'srem'):
            bz = bv(b, n) == 0
            if s.feasible(bz): raise Violation('ub', 'division by zero is possible')
        return z3.simplify(Z3BIN[op](bv(a, n), bv(b, n)))
    def icmp(s, pred, n, a, b):
        if type(a) is int and type(b) is int: return icmp_c(pred, n, a, b)
        r = z3.simplify(Z3CMP[pred](bv(a, n), bv(b, n)))
        if z3.is_true(r): return 1
        if z3.is_false(r): return 0
        return z3.If(r, BV1_1, BV1_0)

    # ------------------------------------------------------------ calls
    def push_frame(s, name, args, ret_dst, normal, unwind):
        if len(s.frames) >= s.B['depth']: raise BoundExceeded('call depth bound %d exceeded (in %s)' % (s.B['depth'], name))
        code = s.P.code(name); s.funcs_run.add(name)
        f = Frame(code)
        for pn, a in zip(code.params, args): f.regs[pn] = a
        f.pc = code.blocks[code.entry]; f.ret_dst = ret_dst; f.normal = normal; f.unwind = unwind
        s.frames.append(f)

    def pop_frame(s):
        f = s.frames.pop()
        for a in f.allocas:
            i = bisect.bisect_left(s.abase, a); s.ainfo[i][1] = False; s.trail.append(('live', a, True))
        return f

    def goto(s, f, target):
        phis = f.code.phis[target]
        if phis:
            prev = f.cur; regs = f.regs; nv = []
            for dst, inc in phis:
                o = inc[prev]; nv.append((dst, regs[o] if type(o) is str else o))
            for dst, v in nv: regs[dst] = v
        f.cur = target; f.pc = f.code.blocks[target]

    def throw(s, obj, ti):
        """start unwinding.  If the throwing call (an external model) was an invoke in the current frame, go to its
        unwind label; otherwise pop frames until one that was invoked with an unwind label."""
        s.exc = (obj, ti)
        u = s.cur_unwind; s.cur_unwind = None
        if u is not None:
            s.goto(s.frames[-1], u); return
        while s.frames:
            t = s.pop_frame()
            if s.frames and t.unwind is not None:
                s.goto(s.frames[-1], t.unwind); return
        raise PathEnd('throw', ti)

    def run(s):
        """run until the frame stack is empty (normal completion)."""
        frames = s.frames; B_steps = s.B['steps']
        while frames:
            f = frames[-1]; regs = f.regs
            ins = f.code.ins[f.pc]; f.pc += 1
            s.steps += 1
            if s.steps > B_steps: raise BoundExceeded('step bound %d exceeded' % B_steps)
            op = ins[0]
            if op == 'load':
                _, dst, n, b, ptr = ins
                a = regs[ptr] if type(ptr) is str else ptr
                if type(a) is not int: a = s.concretize(a, 'address')
                v = s.load(a, n)
                if b < 8 * n: v = v & ((1 << b) - 1) if type(v) is int else z3.Extract(b - 1, 0, v)
                regs[dst] = v
            elif op == 'gep':
                _, dst, base, coff, steps = ins
                a = regs[base] if type(base) is str else base
                symgep = s.B.get('symgep')
                if type(a) is not int and not symgep: a = s.concretize(a, 'address')
                a = a + coff
                for (ix, ib, stride) in steps:
                    x = regs[ix] if type(ix) is str else ix
                    if type(x) is not int:
                        if symgep:      # keep the address as a term; it is resolved only if something is accessed through it
                            a = bv(a & M64 if type(a) is int else a, 64) + (z3.SignExt(64 - ib, x) if ib < 64 else x) * stride; continue
                        x = s.concretize(x, 'index')
                    a = a + sx(x, ib) * stride
                regs[dst] = a & M64 if type(a) is int else z3.simplify(a)
            elif op == 'store':
                _, n, b, v, ptr = ins
                a = regs[ptr] if type(ptr) is str else ptr
                if type(a) is not int: a = s.concretize(a, 'address')
                x = regs[v] if type(v) is str else v
                if type(x) is not int and b < 8 * n: x = z3.ZeroExt(8 * n - b, x)
                s.store(a, n, x)
            elif op == 'cast':
                _, dst, cop, sb, v, db = ins
                x = regs[v] if type(v) is str else v
                if type(x) is int:
                    if cop == 'sext': x = sx(x, sb) & ((1 << db) - 1)
                    elif db < sb: x &= (1 << db) - 1
                elif type(x) is tuple: pass
                else:
                    if cop == 'sext': x = z3.SignExt(db - sb, x)
                    elif db < sb: x = z3.simplify(z3.Extract(db - 1, 0, x))
                    elif db > sb: x = z3.ZeroExt(db - sb, x)
                regs[dst] = x
            elif op == 'bin':
                _, dst, bop, n, a, b = ins
                regs[dst] = s.binop(bop, n, regs[a] if type(a) is str else a, regs[b] if type(b) is str else b)
            elif op == 'icmp':
                _, dst, pred, n, a, b = ins
                regs[dst] = s.icmp(pred, n, regs[a] if type(a) is str else a, regs[b] if type(b) is str else b)
            elif op == 'br':
                s.goto(f, ins[1])
            elif op == 'cbr':
                c = ins[1]; c = regs[c] if type(c) is str else c
                if type(c) is int: t = ins[2] if c & 1 else ins[3]
                else:
                    s.stats['sym_branches'] += 1
                    t = ins[2] if s.decide_bool(c) else ins[3]
                s.goto(f, t)
            elif op == 'call':
                _, dst, callee, cargs, normal, unwind, isvoid = ins
                av = [regs[a] if type(a) is str else a for a in cargs]
                if callee[0] == 'd': cname = callee[1]
                else:
                    fp = regs[callee[1]]
                    if type(fp) is not int: fp = s.concretize(fp, 'function pointer')
                    cname = s.P.addr2f.get(fp)
                    if cname is None: raise Violation('memory', 'indirect call through non-function pointer %#x' % fp)
                fn = s.P.m.funcs.get(cname)
                if fn is not None and fn.defined and cname not in s.models:
                    s.push_frame(cname, av, dst, normal, unwind)
                else:
                    if cname.startswith('llvm.'): r = s.intrinsic(cname, av)
                    else:
                        mdl = s.models.get(cname)
                        if mdl is None: raise Unmodelled('unmodelled external ' + cname)
                        s.models_hit.add(cname)
                        s.cur_unwind = unwind
                        r = mdl(s, av)          # may call s.throw (which redirects control) and return THROWN
                        if r is THROWN: continue
                        s.cur_unwind = None
                    if dst is not None: regs[dst] = r
                    if normal is not None: s.goto(f, normal)
            elif op == 'ret':
                v = ins[1]
                if v is not None: v = regs[v] if type(v) is str else v
                s.pop_frame()
                if frames:
                    c = frames[-1]
                    if f.ret_dst is not None: c.regs[f.ret_dst] = v
                    if f.normal is not None: s.goto(c, f.normal)
                else:
                    s.retval = v
            elif op == 'select':
                _, dst, c, a, b, w, isptr = ins
                cv = regs[c] if type(c) is str else c; av = regs[a] if type(a) is str else a; bv_ = regs[b] if type(b) is str else b
                if type(cv) is int: regs[dst] = av if cv & 1 else bv_
                elif isptr or type(av) is tuple or type(bv_) is tuple:
                    if type(av) is int and type(bv_) is int and av == bv_: regs[dst] = av
                    else: regs[dst] = av if s.decide_bool(cv) else bv_
                else:
                    r = s.implied_bool(cv)
                    if r is None: regs[dst] = z3.If(cv == 1, bv(av, w), bv(bv_, w))
                    else: regs[dst] = av if r else bv_
            elif op == 'alloca':
                _, dst, sz, cnt = ins
                if type(cnt) is str: cnt = s.concretize(regs[cnt], 'alloca count')
                a = s.alloc(max(sz * cnt, 1), 'stack', f.code.name); f.allocas.append(a); regs[dst] = a
            elif op == 'switch':
                _, v, dflt, cases, nb = ins
                x = regs[v] if type(v) is str else v
                if type(x) is not int:
                    opts = [(lab, x == cv) for cv, lab in cases.items()]
                    # group by label to limit forks
                    bylab = collections.OrderedDict()
                    for cv, lab in cases.items(): bylab.setdefault(lab, []).append(x == cv)
                    opts = [(lab, z3.Or(*cs) if len(cs) > 1 else cs[0]) for lab, cs in bylab.items()]
                    opts.append(('__default__', z3.And(*[x != cv for cv in cases])) if cases else ('__default__', z3.BoolVal(True)))
                    lab = s.decide(opts)
                    t = dflt if lab == '__default__' else lab
                else: t = cases.get(x, dflt)
                s.goto(f, t)
            elif op == 'extractvalue':
                _, dst, v, idxs = ins
                x = regs[v] if type(v) is str else v
                for ix in idxs:
                    if x[0] == 'agg0':
                        r = s.L.resolve(x[1]); et = r.fields[ix] if isinstance(r, TStruct) else r.el
                        x = ('agg0', et) if s.L.is_agg(et) else 0
                    else: x = x[1][ix]
                regs[dst] = x
            elif op == 'insertvalue':
                _, dst, v, evv, idxs, n = ins
                x = regs[v] if type(v) is str else v
                regs[dst] = s.insertvalue(x, regs[evv] if type(evv) is str else evv, idxs)
            elif op == 'loadagg':
                _, dst, ty, ptr = ins
                a = regs[ptr] if type(ptr) is str else ptr
                if type(a) is not int: a = s.concretize(a, 'address')
                regs[dst] = s.load_agg(a, ty)
            elif op == 'storeagg':
                _, ty, v, ptr = ins
                a = regs[ptr] if type(ptr) is str else ptr
                if type(a) is not int: a = s.concretize(a, 'address')
                s.store_agg(a, ty, regs[v] if type(v) is str else v)
            elif op == 'landingpad':
                _, dst, clauses, cleanup = ins
                obj, ti = s.exc; sel = 0
                for cl in clauses:
                    if cl is None: sel = s.typeid_for(None); break
                    if cl == 'filter': continue
                    if s.P.exc_matches(ti, cl): sel = s.typeid_for(cl); break
                regs[dst] = ('agg', [obj, sel])
            elif op == 'resume':
                obj, ti = s.exc
                s.cur_unwind = None
                s.throw(obj, ti)
            elif op == 'unreachable':
                raise Violation('ub', 'reached "unreachable" in ' + f.code.name)
            else:
                raise ValueError(op)

    def typeid_for(s, tiname):
        t = s.P.typeid
        if tiname not in t: t[tiname] = len(t) + 1
        return t[tiname]

    def insertvalue(s, x, e, idxs):
        if x[0] == 'agg0':
            r = s.L.resolve(x[1])
            if isinstance(r, TStruct): els = [('agg0', ft) if s.L.is_agg(ft) else 0 for ft in r.fields]
            else: els = [('agg0', r.el) if s.L.is_agg(r.el) else 0 for _ in range(r.n)]
        else: els = list(x[1])
        if len(idxs) == 1: els[idxs[0]] = e
        else: els[idxs[0]] = s.insertvalue(els[idxs[0]], e, idxs[1:])
        return ('agg', els)

    def load_agg(s, a, ty):
        r = s.L.resolve(ty); L = s.L
        if isinstance(r, TStruct):
            els = []
            for i, ft in enumerate(r.fields):
                off, _ = L.field_off(r, i)
                els.append(s.load_agg(a + off, ft) if L.is_agg(ft) else s.trunc_load(a + off, ft))
            return ('agg', els)
        esz = L.size_align(r.el)[0]
        return ('agg', [s.load_agg(a + i * esz, r.el) if L.is_agg(r.el) else s.trunc_load(a + i * esz, r.el) for i in range(r.n)])
    def trunc_load(s, a, ty):
        n = s.L.size_align(ty)[0]; b = s.L.bits(ty); v = s.load(a, n)
        if b < 8 * n: v = v & ((1 << b) - 1) if is_c(v) else z3.Extract(b - 1, 0, v)
        return v
    def store_agg(s, a, ty, x):
        r = s.L.resolve(ty); L = s.L
        if x[0] == 'agg0':
            for i in range(L.size_align(ty)[0]): s.store(a + i, 1, 0)
            return
        if isinstance(r, TStruct):
            for i, ft in enumerate(r.fields):
                off, _ = L.field_off(r, i)
                if type(x[1][i]) is tuple: s.store_agg(a + off, ft, x[1][i])
                else: s.ext_store(a + off, ft, x[1][i])
        else:
            esz = L.size_align(r.el)[0]
            for i in range(r.n):
                if type(x[1][i]) is tuple: s.store_agg(a + i * esz, r.el, x[1][i])
                else: s.ext_store(a + i * esz, r.el, x[1][i])
    def ext_store(s, a, ty, v):
        n = s.L.size_align(ty)[0]; b = s.L.bits(ty)
        if not is_c(v) and b < 8 * n: v = z3.ZeroExt(8 * n - b, v)
        s.store(a, n, v)

    # ------------------------------------------------------------ intrinsics
    def intrinsic(s, name, av):
        if name.startswith(('llvm.lifetime', 'llvm.experimental.noalias', 'llvm.dbg', 'llvm.invariant', 'llvm.prefetch')): return None
        if name.startswith('llvm.assume'):
            c = av[0]
            if is_c(c):
                if not c & 1: raise PathEnd('assume')
            else: s.add(c == 1)
            return None
        if name.startswith('llvm.memset'):
            a, b, n = av[0], av[1], av[2]
            n = s.concretize(n, 'memset length'); a = s.concretize(a, 'address')
            if n == 0: return None
            s.check_access(a, n, True)
            if is_c(b) and a % 8 == 0:
                i = 0; w = (b & 255) * 0x0101010101010101
                while i + 8 <= n: s.raw_store(a + i, 8, w); i += 8
                while i < n: s.raw_store(a + i, 1, b & 255); i += 1
            else:
                if not is_c(b): b = z3.Extract(7, 0, b)
                else: b &= 255
                for i in range(n): s.raw_store(a + i, 1, b)
            return None
        if name.startswith(('llvm.memcpy', 'llvm.memmove')):
            d, sr, n = av[0], av[1], av[2]
            n = s.concretize(n, 'memcpy length'); d = s.concretize(d, 'address'); sr = s.concretize(sr, 'address')
            if n == 0: return None
            s.check_access(sr, n, False); s.check_access(d, n, True)
            vals = []; i = 0
            while i < n:
                c = s.mem.get(sr + i)
                if c is not None and i + c[0] <= n: vals.append((i, c[0], c[1])); i += c[0]
                else: vals.append((i, 1, s.raw_load(sr + i, 1))); i += 1
            for o, w, v in vals: s.raw_store(d + o, w, v)
            return None
        if name.startswith('llvm.eh.typeid.for'):
            a = av[0]
            for n_, ga in s.P.gaddr.items():
                if ga == a: return s.typeid_for(n_)
            return s.typeid_for(None) if a == 0 else 0
        if name.startswith(('llvm.umax', 'llvm.umin', 'llvm.smax', 'llvm.smin')):
            n = int(name.rsplit('.i', 1)[1]); a, b = av
            pred = {'umax': 'ugt', 'umin': 'ult', 'smax': 'sgt', 'smin': 'slt'}[name.split('.')[1]]
            c = s.icmp(pred, n, a, b)
            if is_c(c): return a if c else b
            return z3.If(c == 1, bv(a, n), bv(b, n))
        if name.startswith('llvm.abs'):
            n = int(name.rsplit('.i', 1)[1]); a = av[0]
            if is_c(a): return abs(sx(a, n)) & ((1 << n) - 1)
            return z3.If(a < 0, -a, a)
        if name.startswith(('llvm.ctlz', 'llvm.cttz', 'llvm.ctpop')):
            n = int(name.rsplit('.i', 1)[1]); a = s.concretize(av[0], 'bit-count operand')
            if 'ctpop' in name: return bin(a).count('1')
            if a == 0: return n
            if 'ctlz' in name: return n - a.bit_length()
            return (a & -a).bit_length() - 1
        if name.startswith('llvm.load.relative'):
            # relative lookup tables (switch lowered to a table of 32-bit offsets): result = ptr + sext(load i32 (ptr + offset))
            base = s.concretize(av[0], 'address'); off = s.concretize(av[1], 'offset')
            rel = s.concretize(s.load((base + sx(off, 64)) & M64, 4), 'relative entry')
            return (base + sx(rel, 32)) & M64
        if name.startswith('llvm.trap'): raise Violation('ub', 'llvm.trap reached')
        if name.startswith(('llvm.stacksave',)): return 0
        if name.startswith(('llvm.stackrestore',)): return None
        if name.startswith('llvm.uadd.with.overflow') or name.startswith('llvm.umul.with.overflow') or name.startswith('llvm.usub.with.overflow'):
            n = int(name.rsplit('.i', 1)[1]); a, b = av
            if is_c(a) and is_c(b):
                r = a + b if 'uadd' in name else (a * b if 'umul' in name else a - b)
                return ('agg', [r & ((1 << n) - 1), int(r < 0 or r >> n != 0)])
            A = z3.ZeroExt(n, bv(a, n)); Bv = z3.ZeroExt(n, bv(b, n))
            R = A + Bv if 'uadd' in name else (A * Bv if 'umul' in name else A - Bv)
            return ('agg', [z3.Extract(n - 1, 0, R), z3.If(z3.Extract(2 * n - 1, n, R) != 0, BV1_1, BV1_0)])
        raise Unmodelled('unmodelled intrinsic ' + name)


    # ------------------------------------------------------------ results
    def violation(s, kind, msg, aid=None, model=None):
        nd = None
        if s.concrete is not None: nd = list(s.extra.get('nd_used', []))
        else:
            m = model if model is not None else s.get_model()
            if m is not None:
                nd = [m.eval(v, model_completion=True).as_long() for v in s.nond if str(v).startswith('nd_')]
        stack = [f.code.name for f in s.frames[-6:]]
        hashes = []
        if s.concrete is None and s.extra.get('hash_syms'):
            # the counterexample may rely on hash values chosen by the solver (equal-hash neighbours): record them so that the
            # native replay can interpose std::_Hash_bytes with exactly these values
            m = model if model is not None else s.get_model()
            if m is not None:
                for (n, arg, hv) in s.extra['hash_syms']:
                    try:
                        a = m.eval(arg, model_completion=True).as_long(); h = m.eval(hv, model_completion=True).as_long()
                        hashes.append((a.to_bytes(n, 'big').hex(), h))
                    except Exception: pass
        s.violations.append(dict(kind=kind, msg=msg, aid=aid, nd=nd, dec=list(s.dec), stack=stack, hashes=hashes))
        s.events.append(('violation', kind, aid))

    def explore(s, entry, prefix=(), split_depth=None, max_paths=None, on_path=None):
        """DFS over all paths of `entry` below decision prefix `prefix`.  Returns a result dict."""
        t0 = time.time()
        s.reset(); s.prefix = list(prefix); s.split_depth = split_depth
        s.violations = []; ends = collections.Counter(); splits = []; npaths = 0; inconclusive = []
        asserts_seen = collections.Counter(); samples = []; leaks = []
        s.push_frame(entry, [], None, None, None)
        seg = 0; total_steps = 0
        while True:
            end = None
            try:
                s.run(); end = 'complete'
            except PathEnd as e:
                end = e.kind
                if e.kind == 'throw':
                    end = 'throw:' + str(e.info)
                    # an exception that escapes the harness entry: every harness catches what the property allows, so this is a violation
                    s.violation('throw', 'exception %s escapes the harness' % e.info)
                if e.kind == 'split': splits.append(list(s.dec))
            except Violation as v:
                s.violation(v.kind, v.msg); end = 'violation:' + v.kind
            except BoundExceeded as b:
                if s.B.get('depth_is_violation') and b.msg.startswith('call depth'):
                    s.violation('depth', 'recursion deeper than %d frames: %s' % (s.B['depth'], ' <- '.join(f.code.name[:60] for f in s.frames[-4:]))); npaths += 1; ends['violation:depth'] += 1; total_steps += s.steps - seg
                    if not s.save: break
                    sn = s.save.pop(); s.restore(sn); seg = s.steps; continue
                end = 'bound'; inconclusive.append(dict(msg=b.msg, dec=list(s.dec), stack=[f.code.name for f in s.frames[-6:]]))
            except Unmodelled as u:
                end = 'unmodelled'; inconclusive.append(dict(msg=str(u), dec=list(s.dec), stack=[f.code.name for f in s.frames[-6:]]))
            npaths += 1; ends[end] += 1; total_steps += s.steps - seg
            s.events_last = [tuple(x.as_long() if hasattr(x, 'as_long') else x for x in e) for e in s.events] if s.concrete is not None else None
            for e in s.events:
                if e[0] == 'assert': asserts_seen[e[1]] += 1
            if on_path: on_path(s, end)
            if len(samples) < 3 and end == 'complete' and s.concrete is None:
                mv = s.model_values()
                samples.append(dict(harness=entry, decisions=[d if isinstance(d, int) else str(d) for d in s.dec][:40], nondet=mv[:40] if mv else mv, events=len(s.events)))
            if s.deadline is not None and time.time() > s.deadline and s.save:
                inconclusive.append(dict(msg='time budget exhausted with %d pending path(s) in this job' % len(s.save), dec=[], stack=[])); break
            if max_paths is not None and npaths >= max_paths and s.save:
                inconclusive.append(dict(msg='path budget %d exhausted with %d pending' % (max_paths, len(s.save)), dec=[], stack=[])); break
            if not s.save: break
            sn = s.save.pop(); s.restore(sn); seg = s.steps
        return dict(entry=entry, paths=npaths, ends=dict(ends), violations=s.violations, splits=splits, inconclusive=inconclusive,
                    asserts=dict(asserts_seen), stats=dict(s.stats), steps=total_steps,
                    solver_time=round(s.solver_time, 3), wall=round(time.time() - t0, 3), samples=samples)

class _Thrown: pass
THROWN = _Thrown()
import symex as _sx
_sx.THROWN = THROWN
