#!/usr/bin/env python3
"""Model of std::ostringstream for the printer properties (C17/C18).  The object is laid out like libstdc++'s
basic_ostringstream<char>: the inline header code of the real library (operator<<(char), manipulators such as std::oct, setf,
flags(), width(), fill(), ostream_iterator) runs for real on it; only the out-of-line inserters are modelled and append to a
per-path output log.  Numbers are formatted by the model according to the stream's basefield flags."""
import z3
from symex import *
import symex
from models import model, MODELS

VBASE_OFF = 112            # offset of the basic_ios<char> virtual base inside basic_ostringstream<char> (libstdc++ 12, x86-64)
OFF_PRECISION, OFF_WIDTH, OFF_FLAGS, OFF_EXC, OFF_STATE = 8, 16, 24, 28, 32
OFF_TIE, OFF_FILL, OFF_FILL_INIT = 216, 224, 225
F_DEC, F_HEX, F_OCT = 1 << 1, 1 << 3, 1 << 6
F_SKIPWS = 1 << 12

def _ios(s, os_):
    """address of the ios_base subobject of the stream whose basic_ostream part is at os_ (vbase offset read from the vtable)"""
    vptr = s.concretize(s.load(os_, 8), 'vptr')
    off = s.concretize(s.load(vptr - 24, 8), 'vbase offset')
    return os_ + sx(off, 64)

@model('_ZNSt7__cxx1119basic_ostringstreamIcSt11char_traitsIcESaIcEEC1Ev', '_ZNSt7__cxx1119basic_ostringstreamIcSt11char_traitsIcESaIcEEC2Ev')
def m_oss_ctor(s, av):
    a = s.concretize(av[0], 'address')
    i = s.find_alloc(a); size = s.ainfo[i][0] - (a - s.abase[i])
    for k in range(0, size - size % 8, 8): s.raw_store(a + k, 8, 0)
    for k in range(size - size % 8, size): s.raw_store(a + k, 1, 0)
    vt = s.alloc(64, 'heap', 'model:ostream-vtable')
    s.raw_store(vt, 8, VBASE_OFF); s.raw_store(vt + 8, 8, 0); s.raw_store(vt + 16, 8, 0)
    for k in range(24, 64, 8): s.raw_store(vt + k, 8, 0)
    s.store(a, 8, vt + 24)
    ios = a + VBASE_OFF
    s.store(ios + OFF_PRECISION, 8, 6); s.store(ios + OFF_WIDTH, 8, 0); s.store(ios + OFF_FLAGS, 4, F_SKIPWS | F_DEC)
    s.store(ios + OFF_EXC, 4, 0); s.store(ios + OFF_STATE, 4, 0)
    s.store(ios + OFF_FILL, 1, 0x20); s.store(ios + OFF_FILL_INIT, 1, 1)
    s.extra['streams'] = s.extra.get('streams', ()) + (a,)
    s.extra['stream_vt_%x' % a] = vt
    return None

@model('_ZNSt7__cxx1119basic_ostringstreamIcSt11char_traitsIcESaIcEED1Ev', '_ZNSt7__cxx1119basic_ostringstreamIcSt11char_traitsIcESaIcEED2Ev')
def m_oss_dtor(s, av):
    a = s.concretize(av[0], 'address'); vt = s.extra.get('stream_vt_%x' % a)
    if vt is not None:
        i = s.find_alloc(vt)
        if i is not None and s.ainfo[i][1]: s.ainfo[i][1] = False; s.trail.append(('live', vt, True))
    return None

@model('_ZNSt8ios_base4InitC1Ev', '_ZNSt8ios_base4InitD1Ev', '_ZNSt6localeD1Ev', '_ZNSt8ios_baseD2Ev', '_ZNSt6localeC1Ev')
def m_noop(s, av): return None

@model('_ZNSt9basic_iosIcSt11char_traitsIcEE5clearESt12_Ios_Iostate')
def m_clear(s, av):
    a = s.concretize(av[0], 'address'); s.store(a + OFF_STATE, 4, av[1]); return None

def _emit_bytes(s, os_, bs):
    for b in bs: s.out.append(('b', os_, b))

def _pad(s, os_, n):
    """honour width(): pad with fill() on the left, then reset width to 0 (what __ostream_insert / _M_insert do)"""
    ios = _ios(s, os_)
    w = s.concretize(s.load(ios + OFF_WIDTH, 8), 'stream width')
    w = sx(w, 64)
    if w > n:
        fill = s.load(ios + OFF_FILL, 1)
        _emit_bytes(s, os_, [fill] * (w - n))
    if w != 0: s.store(ios + OFF_WIDTH, 8, 0)

@model('_ZSt16__ostream_insertIcSt11char_traitsIcEERSt13basic_ostreamIT_T0_ES6_PKS3_l')
def m_ostream_insert(s, av):
    os_, p, n = av
    os_ = s.concretize(os_, 'address'); p = s.concretize(p, 'address'); n = sx(s.concretize(n, 'length'), 64)
    bs = [s.load(p + i, 1) for i in range(max(n, 0))]
    _pad(s, os_, n); _emit_bytes(s, os_, bs)
    s.stats['stream_inserts'] += 1
    return os_

@model('_ZNSo5writeEPKcl')
def m_write(s, av):
    """std::ostream::write: unformatted, no padding"""
    os_ = s.concretize(av[0], 'address'); p = s.concretize(av[1], 'address'); n = sx(s.concretize(av[2], 'length'), 64)
    _emit_bytes(s, os_, [s.load(p + i, 1) for i in range(max(n, 0))])
    s.stats['stream_inserts'] += 1
    return os_

@model('_ZNSo3putEc')
def m_put(s, av):
    os_ = s.concretize(av[0], 'address'); c = av[1]
    c = c & 255 if is_c(c) else z3.Extract(7, 0, c)
    _emit_bytes(s, os_, [c]); return os_

def _number(s, os_, v, bits, signed):
    ios = _ios(s, os_)
    flags = s.concretize(s.load(ios + OFF_FLAGS, 4), 'stream flags')
    base = 8 if flags & F_OCT and not flags & (F_DEC | F_HEX) else 16 if flags & F_HEX and not flags & (F_DEC | F_OCT) else 10
    if not is_c(v):
        # a number with few feasible values on this path (e.g. the digit of an escape) is split into cases; otherwise it stays a term
        old = s.B['fanout']; s.B['fanout'] = 8
        try: v = s.concretize(v, 'number to print')
        except BoundExceeded: pass
        finally: s.B['fanout'] = old
    if is_c(v):
        x = sx(v, bits) if signed and base == 10 else v & ((1 << bits) - 1)
        txt = (('-' if x < 0 else '') + {8: '%o', 10: '%d', 16: '%x'}[base] % abs(x))
        _pad(s, os_, len(txt)); _emit_bytes(s, os_, [ord(ch) for ch in txt])
    else:
        _pad(s, os_, 1)
        s.out.append(('n', os_, v, base, signed))
    return os_

@model('_ZNSo9_M_insertImEERSoT_')
def m_insert_ulong(s, av): return _number(s, s.concretize(av[0], 'address'), av[1], 64, False)
@model('_ZNSo9_M_insertIlEERSoT_')
def m_insert_long(s, av): return _number(s, s.concretize(av[0], 'address'), av[1], 64, True)
@model('_ZNSolsEi')
def m_insert_int(s, av): return _number(s, s.concretize(av[0], 'address'), av[1], 32, True)
@model('_ZNSolsEj')
def m_insert_uint(s, av): return _number(s, s.concretize(av[0], 'address'), av[1], 32, False)

@model('isalpha')
def m_isalpha(s, av):
    c = av[0]
    if is_c(c): c &= 0xffffffff; return 1 if (65 <= c <= 90 or 97 <= c <= 122) else 0
    r = z3.Or(z3.And(z3.UGE(c, 65), z3.ULE(c, 90)), z3.And(z3.UGE(c, 97), z3.ULE(c, 122)))
    return z3.If(r, z3.BitVecVal(1, 32), z3.BitVecVal(0, 32))

@model('_ZNSt11logic_errorC1ERKNSt7__cxx1112basic_stringIcSt11char_traitsIcESaIcEEE', '_ZNSt11logic_errorC2ERKNSt7__cxx1112basic_stringIcSt11char_traitsIcESaIcEEE')
def m_logic_error_str(s, av):
    a = s.concretize(av[0], 'address'); s.store(a, 8, 0xE0C0DE00); s.store(a + 8, 8, 0); return None

# ---- harness-visible observation of the output log
def _items(s, os_): return [it for it in s.out if it[1] == os_]

@model('vp_stream_size')
def m_stream_size(s, av):
    os_ = s.concretize(av[0], 'address'); its = _items(s, os_)
    if any(it[0] != 'b' for it in its): raise BoundExceeded('vp_stream_size on a stream holding a symbolic number')
    return len(its)

@model('vp_stream_at')
def m_stream_at(s, av):
    os_ = s.concretize(av[0], 'address'); i = s.concretize(av[1], 'index'); its = _items(s, os_)
    if i >= len(its): raise Violation('memory', 'vp_stream_at beyond the end of the output')
    it = its[i]
    if it[0] != 'b': raise BoundExceeded('vp_stream_at on a symbolic number')
    b = it[2]
    return b if is_c(b) else z3.ZeroExt(24, b)

@model('vp_streams_equal')
def m_streams_equal(s, av):
    a = s.concretize(av[0], 'address'); b = s.concretize(av[1], 'address'); ia = _items(s, a); ib = _items(s, b)
    if len(ia) != len(ib): return 0
    conds = []
    for x, y in zip(ia, ib):
        if x[0] != y[0]: return 0
        if x[0] == 'b':
            if is_c(x[2]) and is_c(y[2]):
                if x[2] != y[2]: return 0
            else: conds.append(bv(x[2], 8) == bv(y[2], 8))
        else:
            if x[3] != y[3] or x[4] != y[4]: return 0
            w = x[2].size() if not is_c(x[2]) else y[2].size()
            conds.append(bv(x[2], w) == bv(y[2], w))
    if not conds: return 1
    c = z3.simplify(z3.And(*conds))
    if z3.is_true(c): return 1
    if z3.is_false(c): return 0
    return z3.If(c, z3.BitVecVal(1, 32), z3.BitVecVal(0, 32))

@model('vp_stream_bases_decimal')
def m_bases_decimal(s, av):
    os_ = s.concretize(av[0], 'address')
    return 1 if all(it[3] == 10 for it in _items(s, os_) if it[0] == 'n') else 0

@model('vp_stream_ctrl')
def m_stream_ctrl(s, av):
    """number of output bytes that are NUL or another control byte other than newline (symbolic bytes counted as a term)"""
    os_ = s.concretize(av[0], 'address'); n = 0; terms = []
    for it in _items(s, os_):
        if it[0] != 'b': continue
        b = it[2]
        if is_c(b):
            if (b < 0x20 and b != 10) or b == 0x7f: n += 1
        else: terms.append(z3.If(z3.Or(z3.And(z3.ULT(b, 0x20), b != 10), b == 0x7f), z3.BitVecVal(1, 32), z3.BitVecVal(0, 32)))
    if not terms: return n
    return z3.simplify(z3.BitVecVal(n, 32) + sum(terms[1:], terms[0]))

@model('vp_stream_find')
def m_stream_find(s, av):
    """does the output contain the (concrete) C string?  one term instead of a byte-by-byte loop in the harness"""
    os_ = s.concretize(av[0], 'address'); p = s.concretize(av[1], 'address'); needle = []
    while True:
        c = s.load(p + len(needle), 1)
        if not is_c(c): raise BoundExceeded('vp_stream_find with a symbolic needle')
        if c == 0: break
        needle.append(c)
        if len(needle) > 256: raise BoundExceeded('vp_stream_find needle too long')
    its = _items(s, os_)
    if any(it[0] != 'b' for it in its): raise BoundExceeded('vp_stream_find on a stream holding a symbolic number')
    bs = [it[2] for it in its]; m = len(needle); alts = []
    for i in range(0, len(bs) - m + 1):
        conds = []; ok = True
        for k in range(m):
            b = bs[i + k]
            if is_c(b):
                if b != needle[k]: ok = False; break
            else: conds.append(b == needle[k])
        if not ok: continue
        if not conds: return 1
        alts.append(z3.And(*conds) if len(conds) > 1 else conds[0])
    if not alts: return 0
    c = z3.simplify(z3.Or(*alts) if len(alts) > 1 else alts[0])
    if z3.is_true(c): return 1
    if z3.is_false(c): return 0
    return z3.If(c, z3.BitVecVal(1, 32), z3.BitVecVal(0, 32))
