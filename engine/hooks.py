#!/usr/bin/env python3
"""Optional per-harness instrumentation of engine S (selected by "hooks": "<name>" in the harness spec)."""
from symex import *

def make(name):
    if name == 'isolation': return dict(access=_iso_access)
    raise ValueError(name)

# C20: while the harness is in phase 2 (operations on Lexicon A) every load and store is classified.
#   store to a global, or to a heap block allocated in phase 1 (everything belonging to Lexicon B)      -> violation
#   load from a global that the IR does not mark `constant`, or from a phase-1 block                    -> violation
# Phase bookkeeping lives in s.extra (copied at snapshots): iso_phase, iso_lo, iso_hi.
def _iso_access(s, a, n, write, where):
    if s.extra.get('iso_phase') != 2: return
    kind, idx = where
    if kind == 'heap':
        base = s.abase[idx]
        if s.ainfo[idx][2] == 'heap' and s.extra['iso_lo'] <= base < s.extra['iso_hi']:
            raise Violation('isolation', '%s of storage owned by the other Lexicon (block allocated in %s) while operating on this one' % ('write' if write else 'read', s.ainfo[idx][3]))
        return
    g = s.P.m.globals[s.P.gnames[idx]]
    if write: raise Violation('isolation', 'write to global %s while operating on a Lexicon' % s.P.gnames[idx])
    if not g.const: raise Violation('isolation', 'read of mutable global %s while operating on a Lexicon' % s.P.gnames[idx])
