#!/usr/bin/env python3
"""LLVM-14 textual IR front end (types, constants, module structure) shared by engine S and engine C.

"""
import re, sys, collections

# ----------------------------------------------------------------- types
class T:
    pass
class TInt(T):
    def __init__(s, n): s.n = n
    def key(s): return 'i%d' % s.n
class TVoid(T):
    def key(s): return 'void'
class TPtr(T):
    def __init__(s, to): s.to = to
    def key(s): return 'p(' + s.to.key() + ')'
class TNamed(T):
    def __init__(s, name): s.name = name
    def key(s): return 'n(' + s.name + ')'
class TStruct(T):
    def __init__(s, fields, packed=False): s.fields = fields; s.packed = packed
    def key(s): return ('<{' if s.packed else '{') + ','.join(f.key() for f in s.fields) + '}'
class TArr(T):
    def __init__(s, n, el): s.n = n; s.el = el
    def key(s): return '[%d x %s]' % (s.n, s.el.key())
class TFunc(T):
    def __init__(s, ret, params, vararg): s.ret = ret; s.params = params; s.vararg = vararg
    def key(s): return 'f(' + s.ret.key() + ';' + ','.join(p.key() for p in s.params) + (',...' if s.vararg else '') + ')'
class TOpaque(T):
    def key(s): return 'opaque'
class TMeta(T):
    def key(s): return 'metadata'

NAME_RE = r'(?:"(?:[^"\\]|\\.)*"|[-a-zA-Z$._0-9]+)'

class P:
    """tiny cursor parser over a string"""
    def __init__(s, text, pos=0): s.t = text; s.i = pos
    def ws(s):
        while s.i < len(s.t) and s.t[s.i] in ' \t': s.i += 1
    def peek(s, lit):
        s.ws(); return s.t.startswith(lit, s.i)
    def eat(s, lit):
        s.ws()
        if s.t.startswith(lit, s.i): s.i += len(lit); return True
        return False
    def expect(s, lit):
        if not s.eat(lit): raise SyntaxError('expected %r at %r' % (lit, s.t[s.i:s.i+60]))
    def rx(s, pat):
        s.ws(); m = re.compile(pat).match(s.t, s.i)
        if m: s.i = m.end()
        return m
    def word(s):
        m = s.rx(r'[a-zA-Z_][a-zA-Z_0-9.]*'); return m.group(0) if m else None
    def peekword(s):
        s.ws(); m = re.compile(r'[a-zA-Z_][a-zA-Z_0-9.]*').match(s.t, s.i); return m.group(0) if m else None
    def rest(s): return s.t[s.i:]
    def done(s): s.ws(); return s.i >= len(s.t)

def parse_type(p):
    p.ws()
    if p.eat('void'): t = TVoid()
    elif p.eat('metadata'): t = TMeta()
    elif p.eat('opaque'): t = TOpaque()
    elif p.eat('ptr'): t = TPtr(TInt(8))
    elif p.eat('label'): t = TVoid()
    elif p.peek('<{'):
        p.expect('<{'); fs = []
        if not p.peek('}>'):
            while True:
                fs.append(parse_type(p))
                if not p.eat(','): break
        p.expect('}>'); t = TStruct(fs, True)
    elif p.peek('{'):
        p.expect('{'); fs = []
        if not p.peek('}'):
            while True:
                fs.append(parse_type(p))
                if not p.eat(','): break
        p.expect('}'); t = TStruct(fs)
    elif p.peek('['):
        p.expect('['); n = int(p.rx(r'\d+').group(0)); p.expect('x'); el = parse_type(p); p.expect(']'); t = TArr(n, el)
    elif p.peek('%'):
        m = p.rx(r'%(' + NAME_RE + ')'); t = TNamed(m.group(1))
    elif p.eat('float'): t = TInt(32)          # floating-point types: layout only (their arithmetic is not modelled)
    elif p.eat('double'): t = TInt(64)
    elif p.eat('half'): t = TInt(16)
    elif p.eat('x86_fp80') or p.eat('fp128'): t = TInt(128)
    else:
        m = p.rx(r'i(\d+)')
        if not m: raise SyntaxError('type? ' + p.rest()[:80])
        t = TInt(int(m.group(1)))
    while True:
        p.ws()
        if p.eat('*'): t = TPtr(t); continue
        if p.peek('('):
            p.expect('('); ps = []; va = False
            if not p.peek(')'):
                while True:
                    if p.eat('...'): va = True
                    else: ps.append(parse_type(p))
                    if not p.eat(','): break
            p.expect(')'); t = TFunc(t, ps, va); continue
        break
    return t

# ----------------------------------------------------------------- values
class V:  # constant/value AST
    def __init__(s, kind, **kw): s.kind = kind; s.__dict__.update(kw)

PARAM_ATTRS = set('noundef nonnull noalias nocapture readonly readnone writeonly signext zeroext returned inreg immarg nofree nest swiftself noreturn'.split())
def skip_attrs(p):
    while True:
        p.ws()
        w = p.peekword()
        if w in PARAM_ATTRS: p.word(); continue
        if w in ('align', 'dereferenceable', 'dereferenceable_or_null'):
            p.word(); p.ws()
            if p.eat('('): p.rx(r'\d+'); p.expect(')')
            else: p.rx(r'\d+')
            continue
        if w in ('sret', 'byval', 'byref', 'inalloca', 'preallocated', 'elementtype'):
            p.word(); p.expect('('); parse_type(p); p.expect(')'); continue
        break

def parse_value(p, ty):
    """parse an operand of (known) type ty"""
    p.ws()
    if isinstance(ty, TMeta):
        p.rx(r'![\w.]*(\{[^}]*\})?'); return V('zero', ty=TInt(8), undef=True)
    if p.peek('%'):
        m = p.rx(r'%(' + NAME_RE + ')'); return V('local', name=m.group(1), ty=ty)
    if p.peek('@'):
        m = p.rx(r'@(' + NAME_RE + ')'); return V('global', name=m.group(1), ty=ty)
    m = p.rx(r'-?\d+\.\d*(?:[eE][+-]?\d+)?|0x[0-9A-Fa-f]+')
    if m:           # a floating-point constant (decimal, or the IEEE double bit pattern in hexadecimal): kept as its bit pattern
        import struct
        txt = m.group(0); bits = ty.n if isinstance(ty, TInt) else 64
        d = struct.unpack('<d', struct.pack('<Q', int(txt, 16)))[0] if txt.startswith('0x') else float(txt)
        val = struct.unpack('<I', struct.pack('<f', d))[0] if bits == 32 else struct.unpack('<Q', struct.pack('<d', d))[0]
        return V('int', val=val, ty=ty)
    m = p.rx(r'-?\d+')
    if m: return V('int', val=int(m.group(0)), ty=ty)
    w = p.peekword()
    if w in ('null', 'undef', 'poison', 'zeroinitializer', 'true', 'false', 'none'):
        p.word()
        if w == 'true': return V('int', val=1, ty=ty)
        if w == 'false': return V('int', val=0, ty=ty)
        return V('zero', ty=ty, undef=(w in ('undef', 'poison')))
    if w == 'c' and p.peek('c"'):
        m = p.rx(r'c"((?:[^"\\]|\\.)*)"'); return V('cstr', raw=m.group(1), ty=ty)
    if p.peek('<{') or p.peek('{') or p.peek('['):
        packed = p.eat('<'); close = '}' if p.peek('{') else ']'
        p.i += 1; els = []
        if not p.peek(close):
            while True:
                t = parse_type(p); els.append(parse_value(p, t))
                if not p.eat(','): break
        p.expect(close)
        if packed: p.expect('>')
        return V('agg', els=els, ty=ty)
    if w in ('getelementptr',):
        p.word(); p.eat('inbounds'); p.expect('(')
        bt = parse_type(p); p.expect(',')
        pt = parse_type(p); base = parse_value(p, pt); idx = []
        while p.eat(','):
            p.eat('inrange'); it = parse_type(p); idx.append(parse_value(p, it))
        p.expect(')')
        return V('gep', bt=bt, base=base, idx=idx, ty=ty)
    if w in ('bitcast', 'inttoptr', 'ptrtoint', 'addrspacecast', 'trunc', 'zext', 'sext'):
        p.word(); p.expect('('); st = parse_type(p); v = parse_value(p, st); p.expect('to'); dt = parse_type(p); p.expect(')')
        return V('cast', op=w, val=v, ty=dt)
    if w in ('add', 'sub', 'mul', 'and', 'or', 'xor', 'shl', 'lshr', 'ashr'):
        p.word();
        while p.peekword() in ('nuw', 'nsw', 'exact'): p.word()
        p.expect('('); t1 = parse_type(p); a = parse_value(p, t1); p.expect(','); t2 = parse_type(p); b = parse_value(p, t2); p.expect(')')
        return V('binop', op=w, a=a, b=b, ty=t1)
    if w == 'icmp':
        p.word(); pred = p.word(); p.expect('('); t1 = parse_type(p); a = parse_value(p, t1); p.expect(','); t2 = parse_type(p); b = parse_value(p, t2); p.expect(')')
        return V('icmp', pred=pred, a=a, b=b, ty=TInt(1))
    if w == 'blockaddress' or w == 'dso_local_equivalent':
        raise SyntaxError('unsupported const ' + w)
    raise SyntaxError('value? ' + p.rest()[:100])

# ----------------------------------------------------------------- module
class Func:
    def __init__(s): s.blocks = collections.OrderedDict(); s.params = []; s.ret = None; s.name = None; s.vararg = False; s.defined = False
class Glob:
    pass

class Module:
    def __init__(s, text):
        s.types = {}      # name -> T
        s.globals = {}    # name -> Glob
        s.funcs = {}      # name -> Func
        s.aliases = {}
        s.parse(text)

    def parse(s, text):
        lines = text.split('\n'); i = 0
        while i < len(lines):
            l = lines[i]; i += 1
            if not l or l[0] in ';!' or l.startswith(('source_filename', 'target', 'attributes', '$', 'module asm')): continue
            if l[0] == '%':
                m = re.match(r'%(' + NAME_RE + r') = type (.*)$', l)
                s.types[m.group(1)] = parse_type(P(m.group(2))); continue
            if l[0] == '@':
                s.parse_global(l); continue
            if l.startswith('declare'):
                s.parse_fhead(l, False); continue
            if l.startswith('define'):
                f = s.parse_fhead(l, True); body = []
                while lines[i] != '}': body.append(lines[i]); i += 1
                i += 1; f.body = body; continue

    def parse_global(s, l):
        m = re.match(r'@(' + NAME_RE + r') = (.*)$', l); name = m.group(1); p = P(m.group(2))
        is_alias = False; const = False
        while True:
            w = p.peekword()
            if w in ('private', 'internal', 'external', 'linkonce_odr', 'weak_odr', 'dso_local', 'unnamed_addr', 'local_unnamed_addr', 'hidden', 'available_externally', 'weak', 'common', 'appending', 'linkonce', 'thread_local', 'extern_weak', 'default', 'protected', 'dllimport', 'dllexport'):
                p.word(); continue
            if w == 'alias': p.word(); is_alias = True; break
            if w == 'global': p.word(); break
            if w == 'constant': p.word(); const = True; break
            raise SyntaxError('global? ' + l[:200])
        ty = parse_type(p)
        g = Glob(); g.name = name; g.ty = ty; g.const = const; g.init = None
        if is_alias:
            p.expect(','); at = parse_type(p); v = parse_value(p, at); s.aliases[name] = v; return
        p.ws()
        if not p.done() and not p.peek(',') :
            g.init = parse_value(p, ty)
        s.globals[name] = g

    def parse_fhead(s, l, defined):
        p = P(l); p.word()
        while True:
            w = p.peekword()
            if w in ('private', 'internal', 'external', 'linkonce_odr', 'weak_odr', 'dso_local', 'unnamed_addr', 'local_unnamed_addr', 'hidden', 'available_externally', 'weak', 'noundef', 'nonnull', 'noalias', 'signext', 'zeroext', 'linkonce', 'extern_weak', 'default', 'protected', 'fastcc', 'ccc', 'coldcc'):
                p.word(); continue
            if w in ('align', 'dereferenceable', 'dereferenceable_or_null'):
                skip_attrs(p); continue
            break
        ret = parse_type_nofn(p); skip_attrs(p)
        m = p.rx(r'@(' + NAME_RE + ')'); name = m.group(1)
        p.expect('('); params = []; va = False
        if not p.peek(')'):
            while True:
                if p.eat('...'): va = True
                else:
                    t = parse_type(p); skip_attrs(p); pn = None
                    mm = p.rx(r'%(' + NAME_RE + ')')
                    if mm: pn = mm.group(1)
                    params.append((t, pn))
                if not p.eat(','): break
        p.expect(')')
        f = s.funcs.get(name) or Func()
        f.name = name; f.ret = ret; f.params = params; f.vararg = va; f.defined = defined or f.defined
        s.funcs[name] = f
        return f

def parse_type_nofn(p):
    # a type that must not swallow a following "(" (function header return type)
    p.ws(); start = p.i
    t = None
    if p.eat('void'): t = TVoid()
    elif p.peek('%'):
        m = p.rx(r'%(' + NAME_RE + ')'); t = TNamed(m.group(1))
    elif p.peek('{') or p.peek('<{') or p.peek('['):
        # parse aggregate fully via parse_type but stop before '(' : aggregates contain no trailing '('
        q = P(p.t, p.i); t = parse_type_noparen(q); p.i = q.i; return t
    else:
        m = p.rx(r'i(\d+)'); t = TInt(int(m.group(1)))
    while p.eat('*'): t = TPtr(t)
    return t

def parse_type_noparen(p):
    # parse "{...}" / "[..]" then stars
    depth = 0; i = p.i
    while True:
        c = p.t[i]
        if c in '{[': depth += 1
        if c in '}]':
            depth -= 1
            if depth == 0: i += 1; break
        i += 1
    if p.t.startswith('<{', p.i): i += 1
    sub = P(p.t[p.i:i]); t = parse_type(sub); p.i = i
    while p.eat('*'): t = TPtr(t)
    return t

def parse_type_nofn_call(p):
    """return type in a call: may be 'T' or full fn type 'T (params)' (for varargs)."""
    q = P(p.t, p.i)
    t = parse_type_nofn(q)
    q.ws()
    if q.peek('('):
        # could be a function type spelled out (varargs call) -- detect: after matching paren comes '@' or '%' or 'bitcast'
        depth = 0; j = q.i
        while True:
            c = q.t[j]
            if c == '(': depth += 1
            if c == ')':
                depth -= 1
                if depth == 0: break
            j += 1
        k = j + 1
        while k < len(q.t) and q.t[k] in ' *': k += 1
        if q.t[k] in '@%' or q.t.startswith('bitcast', k):
            # it was a function type; skip it
            p.i = k; return t
    p.i = q.i
    return t

