#!/usr/bin/env python3
"""Engine S: path-forking symbolic executor for LLVM-14 textual IR, z3 back end.

Concrete values are Python ints, symbolic ones z3 bit-vectors of the exact IR width.  Addresses are
concrete on every path (a symbolic address/index/switch value/function pointer is resolved by
asking the solver for its feasible values and forking).  Exploration is depth first with
snapshots (frame copies + an undo trail for memory), solver scopes follow the DFS stack.
See /verif/DESIGN.md section 2.2.
"""
import sys, re, time, collections, bisect, os
from irparse import *
import z3

M64 = (1 << 64) - 1
GLOBAL_BASE = 0x10000
STACK_BASE = 0x20000000
HEAP_BASE = 0x40000000
FUNC_BASE = 0x70000000

class PathEnd(Exception):
    def __init__(s, kind, info=None): s.kind = kind; s.info = info
class Violation(Exception):
    def __init__(s, kind, msg): s.kind = kind; s.msg = msg
class BoundExceeded(Exception):
    def __init__(s, msg): s.msg = msg
class Unmodelled(Exception):
    pass

def is_c(v): return type(v) is int

# ------------------------------------------------------------------ layout
class Layout:
    def __init__(s, mod): s.m = mod; s.cache = {}; s.fo = {}
    def resolve(s, t):
        while isinstance(t, TNamed): t = s.m.types[t.name]
        return t
    def size_align(s, t):
        k = t.key()
        r = s.cache.get(k)
        if r is None: r = s._sa(t); s.cache[k] = r
        return r
    def _sa(s, t):
        t = s.resolve(t)
        if isinstance(t, TInt):
            b = 1 if t.n <= 8 else 2 if t.n <= 16 else 4 if t.n <= 32 else 8 if t.n <= 64 else 16
            return b, b
        if isinstance(t, (TPtr, TFunc)): return 8, 8
        if isinstance(t, TArr):
            sz, al = s.size_align(t.el); return sz * t.n, al
        if isinstance(t, TStruct):
            off = 0; mal = 1
            for f in t.fields:
                sz, al = s.size_align(f)
                if t.packed: al = 1
                off = (off + al - 1) // al * al; off += sz; mal = max(mal, al)
            return (off + mal - 1) // mal * mal, mal
        if isinstance(t, TOpaque): return 1, 1
        if isinstance(t, TVoid): return 1, 1
        raise ValueError(t.key())
    def field_off(s, t, i):
        t = s.resolve(t); k = (t.key(), i)
        r = s.fo.get(k)
        if r is not None: return r
        off = 0
        for j, f in enumerate(t.fields):
            sz, al = s.size_align(f)
            if t.packed: al = 1
            off = (off + al - 1) // al * al
            if j == i: s.fo[k] = (off, f); return off, f
            off += sz
        raise IndexError(i)
    def bits(s, t):
        t = s.resolve(t)
        if isinstance(t, TInt): return t.n
        return 64
    def is_agg(s, t): return isinstance(s.resolve(t), (TStruct, TArr))

# ------------------------------------------------------------------ compiled code
class Code:
    __slots__ = ('name', 'ins', 'blocks', 'phis', 'params', 'entry')

class Frame:
    __slots__ = ('code', 'regs', 'pc', 'cur', 'allocas', 'ret_dst', 'unwind', 'normal')
    def __init__(s, code):
        s.code = code; s.regs = {}; s.pc = 0; s.cur = code.entry; s.allocas = []; s.ret_dst = None; s.unwind = None; s.normal = None
    def clone(s):
        f = Frame.__new__(Frame)
        f.code = s.code; f.regs = dict(s.regs); f.pc = s.pc; f.cur = s.cur; f.allocas = list(s.allocas)
        f.ret_dst = s.ret_dst; f.unwind = s.unwind; f.normal = s.normal
        return f

STD_EXC_PARENT = {
    '_ZTISt12domain_error': '_ZTISt11logic_error', '_ZTISt16invalid_argument': '_ZTISt11logic_error',
    '_ZTISt12length_error': '_ZTISt11logic_error', '_ZTISt12out_of_range': '_ZTISt11logic_error',
    '_ZTISt11logic_error': '_ZTISt9exception', '_ZTISt13runtime_error': '_ZTISt9exception',
    '_ZTISt9bad_alloc': '_ZTISt9exception', '_ZTISt20bad_array_new_length': '_ZTISt9bad_alloc',
    '_ZTISt11range_error': '_ZTISt13runtime_error', '_ZTISt14overflow_error': '_ZTISt13runtime_error',
    '_ZTISt15underflow_error': '_ZTISt13runtime_error', '_ZTISt8bad_cast': '_ZTISt9exception',
    '_ZTISt10bad_typeid': '_ZTISt9exception', '_ZTISt17bad_function_call': '_ZTISt9exception',
    '_ZTISt18bad_variant_access': '_ZTISt9exception',
}

class Program:
    """Immutable per-module data shared by all paths: layout, global addresses, compiled functions."""
    def __init__(s, mod):
        s.m = mod; s.L = Layout(mod); s.codes = {}
        s.faddr = {}; s.addr2f = {}
        for i, n in enumerate(mod.funcs):
            a = FUNC_BASE + 16 * i; s.faddr[n] = a; s.addr2f[a] = n
        s.gaddr = {}; s.gbases = []; s.gnames = []; s.gsizes = []
        a = GLOBAL_BASE
        for n, g in mod.globals.items():
            sz, al = s.L.size_align(g.ty); al = max(al, 16)
            a = (a + al - 1) // al * al
            s.gaddr[n] = a; s.gbases.append(a); s.gnames.append(n); s.gsizes.append(max(sz, 1)); a += max(sz, 1) + 32
        s.gend = a
        s.addr2g = {v: k for k, v in s.gaddr.items()}
        assert a < STACK_BASE
        s.gimage = {}
        s.typeid = {}

    # ---- constants
    def const(s, v):
        k = v.kind
        if k == 'int': return v.val & ((1 << s.L.bits(v.ty)) - 1)
        if k == 'zero':
            if s.L.is_agg(v.ty): return ('agg0', v.ty)
            return 0
        if k == 'global': return s.addr_of(v.name)
        if k == 'cast':
            x = s.const(v.val)
            if v.op == 'trunc': return x & ((1 << s.L.bits(v.ty)) - 1)
            return x
        if k == 'gep':
            return s.gep_const(v.bt, s.const(v.base), [s.const(i) if i.kind != 'int' else i.val for i in v.idx], [i.ty for i in v.idx])
        if k == 'agg': return ('agg', [s.const(e) for e in v.els])
        if k == 'binop':
            a = s.const(v.a); b = s.const(v.b); n = s.L.bits(v.ty)
            return binop_c(v.op, n, a, b)
        if k == 'cstr':
            return ('agg', cstr_bytes(v.raw))
        raise ValueError('const ' + k)
    def addr_of(s, name):
        if name in s.m.aliases: return s.const(s.m.aliases[name])
        if name in s.faddr: return s.faddr[name]
        return s.gaddr[name]
    def gep_const(s, bt, base, idx, itys):
        a = base + sx(idx[0], s.L.bits(itys[0])) * s.L.size_align(bt)[0]; cur = bt
        for ix, it in zip(idx[1:], itys[1:]):
            r = s.L.resolve(cur)
            if isinstance(r, TStruct):
                off, cur = s.L.field_off(r, ix); a += off
            else:
                a += sx(ix, s.L.bits(it)) * s.L.size_align(r.el)[0]; cur = r.el
        return a & M64

    def global_image(s, gi):
        """cells {addr: (n, val)} for the initializer of global #gi (cached)."""
        im = s.gimage.get(gi)
        if im is None:
            im = {}; g = s.m.globals[s.gnames[gi]]
            if g.init is not None: s.write_const(im, s.gbases[gi], g.ty, g.init)
            s.gimage[gi] = im
        return im
    def write_const(s, im, a, ty, v):
        r = s.L.resolve(ty)
        if v.kind == 'zero':
            sz = s.L.size_align(ty)[0]; i = 0
            while i + 8 <= sz and (a + i) % 8 == 0: im[a + i] = (8, 0); i += 8
            while i < sz: im[a + i] = (1, 0); i += 1
            return
        if v.kind == 'agg':
            if isinstance(r, TStruct):
                for i, e in enumerate(v.els):
                    off, ft = s.L.field_off(r, i); s.write_const(im, a + off, ft, e)
            else:
                esz = s.L.size_align(r.el)[0]
                for i, e in enumerate(v.els): s.write_const(im, a + i * esz, r.el, e)
            return
        if v.kind == 'cstr':
            for k, b in enumerate(cstr_bytes(v.raw)): im[a + k] = (1, b)
            return
        val = s.const(v); n = s.L.size_align(ty)[0]
        im[a] = (n, val & ((1 << (8 * n)) - 1))

    def typeinfo_parent(s, name):
        if name in STD_EXC_PARENT: return STD_EXC_PARENT[name]
        g = s.m.globals.get(name)
        if g is None or g.init is None or g.init.kind != 'agg': return None
        els = g.init.els
        if len(els) >= 3:
            e = els[2]
            while e.kind == 'cast': e = e.val
            if e.kind == 'global': return e.name
        return None
    def exc_matches(s, thrown, caught):
        t = thrown; n = 0
        while t is not None and n < 20:
            if t == caught: return True
            t = s.typeinfo_parent(t); n += 1
        return False

    # ---- function compilation
    def code(s, name):
        c = s.codes.get(name)
        if c is None: c = s.compile(s.m.funcs[name]); s.codes[name] = c
        return c

    def compile(s, f):
        blocks = collections.OrderedDict()
        nunn = sum(1 for (t, n) in f.params if n is None or n.isdigit())
        cur = str(nunn); blocks[cur] = []
        for l in f.body:
            ls = l.strip()
            if not ls or ls.startswith(';'): continue
            m = re.match(r'^(' + NAME_RE + r'):', l)
            if m and not l.startswith(' '): cur = m.group(1); blocks[cur] = []; continue
            prev = blocks[cur][-1] if blocks[cur] else None
            if prev is not None and (ls.startswith(('to label', 'cleanup', 'catch ', 'filter ')) or (prev.startswith('switch') and not prev.rstrip().endswith(']'))):
                blocks[cur][-1] += ' ' + ls
            else: blocks[cur].append(ls)
        c = Code(); c.name = f.name; c.ins = []; c.blocks = {}; c.phis = {}; c.entry = str(nunn)
        params = []; k = 0
        for (t, pn) in f.params:
            if pn is None: pn = str(k)
            if pn.isdigit(): k = max(k, int(pn) + 1) if pn == str(k) else k
            params.append(pn)
        # unnamed params are numbered 0.. in order
        k = 0; params = []
        for (t, pn) in f.params:
            if pn is None: pn = str(k); k += 1
            elif pn.isdigit(): k = int(pn) + 1
            params.append(pn)
        c.params = params
        for bn, ls in blocks.items():
            phis = []; start = None
            for l in ls:
                ins = s.parse_inst(l)
                if ins[0] == 'phi': phis.append(ins[1:]); continue
                if start is None: start = len(c.ins)
                c.ins.append(ins)
            c.blocks[bn] = start; c.phis[bn] = phis
        return c

    def opnd(s, v):
        """compile an operand: str = register name, anything else = constant value"""
        if v.kind == 'local': return v.name
        return s.const(v)

    def parse_inst(s, l):
        m = re.match(r'%(' + NAME_RE + r') = (.*)$', l); dst = None
        if m: dst = m.group(1); l = m.group(2)
        l = re.sub(r',\s*![\w.]+ !\d+', '', l)
        l = re.sub(r',\s*!srcloc !\d+', '', l)
        p = P(l)
        for pre in ('tail', 'musttail', 'notail'):
            if p.peekword() == pre: p.word()
        op = p.word(); L = s.L; O = s.opnd
        if op == 'phi':
            ty = parse_type(p); inc = {}
            while True:
                p.expect('['); v = parse_value(p, ty); p.expect(','); b = p.rx(r'%(' + NAME_RE + ')').group(1); p.expect(']'); inc[b] = O(v)
                if not p.eat(','): break
            return ('phi', dst, inc)
        if op in ('add', 'sub', 'mul', 'and', 'or', 'xor', 'shl', 'lshr', 'ashr', 'udiv', 'sdiv', 'urem', 'srem'):
            while p.peekword() in ('nuw', 'nsw', 'exact'): p.word()
            ty = parse_type(p); a = parse_value(p, ty); p.expect(','); b = parse_value(p, ty); return ('bin', dst, op, L.bits(ty), O(a), O(b))
        if op == 'icmp':
            pred = p.word(); ty = parse_type(p); a = parse_value(p, ty); p.expect(','); b = parse_value(p, ty); return ('icmp', dst, pred, L.bits(ty), O(a), O(b))
        if op in ('bitcast', 'inttoptr', 'ptrtoint', 'trunc', 'zext', 'sext', 'addrspacecast', 'freeze'):
            st = parse_type(p); v = parse_value(p, st); dt = st
            if op != 'freeze': p.expect('to'); dt = parse_type(p)
            return ('cast', dst, op, L.bits(st), O(v), L.bits(dt))
        if op == 'getelementptr':
            p.eat('inbounds'); bt = parse_type(p); p.expect(','); pt = parse_type(p); base = parse_value(p, pt); steps = []
            cur = bt; first = True; coff = 0
            while p.eat(','):
                p.eat('inrange'); it = parse_type(p); iv = parse_value(p, it)
                if first:
                    stride = L.size_align(bt)[0]; first = False
                else:
                    r = L.resolve(cur)
                    if isinstance(r, TStruct):
                        off, cur = L.field_off(r, iv.val); coff += off; continue
                    stride = L.size_align(r.el)[0]; cur = r.el
                if iv.kind == 'int': coff += sx(iv.val & ((1 << L.bits(it)) - 1), L.bits(it)) * stride
                else: steps.append((O(iv), L.bits(it), stride))
            return ('gep', dst, O(base), coff, steps)
        if op == 'load':
            p.eat('atomic'); p.eat('volatile'); ty = parse_type(p); p.expect(','); pt = parse_type(p); ptr = parse_value(p, pt)
            if L.is_agg(ty): return ('loadagg', dst, ty, O(ptr))
            return ('load', dst, L.size_align(ty)[0], L.bits(ty), O(ptr))
        if op == 'store':
            p.eat('atomic'); p.eat('volatile'); ty = parse_type(p); v = parse_value(p, ty); p.expect(','); pt = parse_type(p); ptr = parse_value(p, pt)
            if L.is_agg(ty): return ('storeagg', ty, O(v), O(ptr))
            return ('store', L.size_align(ty)[0], L.bits(ty), O(v), O(ptr))
        if op == 'alloca':
            ty = parse_type(p); cnt = 1
            if p.eat(',') and p.peekword() != 'align':
                ct_ = parse_type(p); cnt = O(parse_value(p, ct_))
            return ('alloca', dst, L.size_align(ty)[0], cnt)
        if op == 'select':
            ct_ = parse_type(p); c = parse_value(p, ct_); p.expect(','); t1 = parse_type(p); a = parse_value(p, t1); p.expect(','); t2 = parse_type(p); b = parse_value(p, t2)
            r = L.resolve(t1)
            return ('select', dst, O(c), O(a), O(b), L.bits(t1), isinstance(r, (TPtr, TStruct, TArr)))
        if op == 'extractvalue':
            ty = parse_type(p); v = parse_value(p, ty); idxs = []
            while p.eat(','): idxs.append(int(p.rx(r'\d+').group(0)))
            return ('extractvalue', dst, O(v), idxs)
        if op == 'insertvalue':
            ty = parse_type(p); v = parse_value(p, ty); p.expect(','); et = parse_type(p); evv = parse_value(p, et); idxs = []
            while p.eat(','): idxs.append(int(p.rx(r'\d+').group(0)))
            r = L.resolve(ty); n = len(r.fields) if isinstance(r, TStruct) else r.n
            return ('insertvalue', dst, O(v), O(evv), idxs, n)
        if op == 'ret':
            if p.peek('void'): return ('ret', None)
            ty = parse_type(p); return ('ret', O(parse_value(p, ty)))
        if op == 'br':
            if p.peek('label'):
                p.word(); return ('br', p.rx(r'%(' + NAME_RE + ')').group(1))
            ty = parse_type(p); c = parse_value(p, ty); p.expect(','); p.expect('label'); t1 = p.rx(r'%(' + NAME_RE + ')').group(1); p.expect(','); p.expect('label'); t2 = p.rx(r'%(' + NAME_RE + ')').group(1)
            return ('cbr', O(c), t1, t2)
        if op == 'switch':
            ty = parse_type(p); v = parse_value(p, ty); p.expect(','); p.expect('label'); dflt = p.rx(r'%(' + NAME_RE + ')').group(1); p.expect('['); cases = {}
            while not p.peek(']'):
                ct_ = parse_type(p); cv = parse_value(p, ct_); p.expect(','); p.expect('label'); cases[cv.val & ((1 << L.bits(ty)) - 1)] = p.rx(r'%(' + NAME_RE + ')').group(1)
            return ('switch', O(v), dflt, cases, L.bits(ty))
        if op == 'unreachable': return ('unreachable',)
        if op == 'resume':
            ty = parse_type(p); return ('resume', O(parse_value(p, ty)))
        if op == 'landingpad':
            parse_type(p); clauses = []; cleanup = False
            while not p.done():
                w = p.word()
                if w == 'cleanup': cleanup = True
                elif w == 'catch':
                    t = parse_type(p); v = parse_value(p, t)
                    while v.kind == 'cast': v = v.val
                    clauses.append(v.name if v.kind == 'global' else None)
                elif w == 'filter':
                    t = parse_type(p); parse_value(p, t); clauses.append('filter')
                else: raise ValueError('landingpad ' + l)
            return ('landingpad', dst, clauses, cleanup)
        if op in ('call', 'invoke'):
            while True:
                w = p.peekword()
                if w in ('fastcc', 'ccc', 'coldcc'): p.word(); continue
                if w in PARAM_ATTRS or w in ('align', 'dereferenceable', 'dereferenceable_or_null'): skip_attrs(p); continue
                break
            rt = parse_type_nofn_call(p); p.ws()
            if p.peek('@'): callee = ('d', p.rx(r'@(' + NAME_RE + ')').group(1))
            else:
                mm = p.rx(r'%(' + NAME_RE + ')')
                if mm: callee = ('i', mm.group(1))
                else:
                    cv = parse_value(p, TPtr(TInt(8)))
                    while cv.kind == 'cast': cv = cv.val
                    if cv.kind == 'global': callee = ('d', cv.name)
                    elif cv.kind == 'asm': callee = ('asm', None)
                    else: raise ValueError('callee ' + l)
            p.expect('('); args = []
            if not p.peek(')'):
                while True:
                    at = parse_type(p); skip_attrs(p); args.append(O(parse_value(p, at)))
                    if not p.eat(','): break
            p.expect(')'); normal = unwind = None
            if op == 'invoke':
                mm = re.search(r'to label %(' + NAME_RE + ') unwind label %(' + NAME_RE + ')', p.rest()); normal = mm.group(1); unwind = mm.group(2)
            if callee[0] == 'd':
                n = callee[1]
                if n in s.m.aliases and s.m.aliases[n].kind == 'global': callee = ('d', s.m.aliases[n].name)
            return ('call', dst, callee, args, normal, unwind, isinstance(rt, TVoid))
        raise ValueError('inst ' + l[:120])

def sx(x, n):
    x &= (1 << n) - 1
    return x - (1 << n) if x >> (n - 1) else x

def cstr_bytes(raw):
    out = []; i = 0
    while i < len(raw):
        if raw[i] == '\\' and raw[i+1] == '\\': out.append(0x5C); i += 2
        elif raw[i] == '\\': out.append(int(raw[i+1:i+3], 16)); i += 3
        else: out.append(ord(raw[i])); i += 1
    return out

def binop_c(op, n, a, b):
    m = (1 << n) - 1
    if op == 'add': return (a + b) & m
    if op == 'sub': return (a - b) & m
    if op == 'mul': return (a * b) & m
    if op == 'and': return a & b
    if op == 'or': return a | b
    if op == 'xor': return a ^ b
    if op == 'shl': return (a << b) & m if b < n else 0
    if op == 'lshr': return a >> b if b < n else 0
    if op == 'ashr': return (sx(a, n) >> min(b, n - 1)) & m
    if op == 'udiv':
        if b == 0: raise Violation('ub', 'division by zero')
        return a // b
    if op == 'urem':
        if b == 0: raise Violation('ub', 'division by zero')
        return a % b
    if op == 'sdiv':
        if b == 0: raise Violation('ub', 'division by zero')
        q = abs(sx(a, n)) // abs(sx(b, n)); return (q if (sx(a, n) < 0) == (sx(b, n) < 0) else -q) & m
    if op == 'srem':
        if b == 0: raise Violation('ub', 'division by zero')
        q = abs(sx(a, n)) % abs(sx(b, n)); return (q if sx(a, n) >= 0 else -q) & m
    raise ValueError(op)

def bv(x, n): return z3.BitVecVal(x, n) if type(x) is int else x

Z3BIN = {'add': lambda a, b: a + b, 'sub': lambda a, b: a - b, 'mul': lambda a, b: a * b, 'and': lambda a, b: a & b, 'or': lambda a, b: a | b,
         'xor': lambda a, b: a ^ b, 'shl': lambda a, b: a << b, 'lshr': z3.LShR, 'ashr': lambda a, b: a >> b, 'udiv': z3.UDiv, 'urem': z3.URem,
         'sdiv': lambda a, b: a / b, 'srem': z3.SRem}
Z3CMP = {'eq': lambda a, b: a == b, 'ne': lambda a, b: a != b, 'ult': z3.ULT, 'ule': z3.ULE, 'ugt': z3.UGT, 'uge': z3.UGE,
         'slt': lambda a, b: a < b, 'sle': lambda a, b: a <= b, 'sgt': lambda a, b: a > b, 'sge': lambda a, b: a >= b}
BV1_1 = z3.BitVecVal(1, 1); BV1_0 = z3.BitVecVal(0, 1)

def icmp_c(pred, n, a, b):
    if pred == 'eq': return int(a == b)
    if pred == 'ne': return int(a != b)
    if pred == 'ult': return int(a < b)
    if pred == 'ule': return int(a <= b)
    if pred == 'ugt': return int(a > b)
    if pred == 'uge': return int(a >= b)
    a = sx(a, n); b = sx(b, n)
    if pred == 'slt': return int(a < b)
    if pred == 'sle': return int(a <= b)
    if pred == 'sgt': return int(a > b)
    if pred == 'sge': return int(a >= b)
    raise ValueError(pred)
