#!/bin/bash
# usage: tools/seedcheck.sh <seed-dir> <property-id> [more check ids...]
# Confirms a seeded change in a fresh scratch worktree (applies, builds, 17 tests pass, demo fails with / passes without),
# then runs the given checks against that worktree (VERIF_REPO) and removes the worktree again.
set -u
dir=$1; shift; ids="$@"
wt=/tmp/sv_$(basename $dir)_$$
git -C /repo worktree add -q --detach $wt HEAD || exit 2
rtag=$(echo -n $wt | sha256sum | cut -c1-6)
cleanup() { git -C /repo worktree remove --force $wt 2>/dev/null; rm -rf $wt /verif/.work/*-*-$rtag-* /verif/.work/evidence-$rtag; }
trap cleanup EXIT
echo "== clean build"; cmake -G Ninja -S $wt -B $wt/_build >/dev/null && cmake --build $wt/_build >/dev/null 2>&1 || { echo "clean build failed"; exit 2; }
g++ -std=c++20 -I$wt/include $dir/demo.cxx $wt/_build/libipr.a -o $wt/demo_clean 2>&1 | tail -3
$wt/demo_clean >/dev/null 2>&1; rc_clean=$?
git -C $wt apply $dir/patch.diff || { echo "patch does not apply"; exit 2; }
cmake --build $wt/_build >/dev/null 2>&1 || { echo "seeded build failed"; exit 2; }
tests=$($wt/_build/tests/unit-tests/unittests 2>&1 | grep "test cases" )
g++ -std=c++20 -I$wt/include $dir/demo.cxx $wt/_build/libipr.a -o $wt/demo_seeded 2>&1 | tail -3
timeout 120 $wt/demo_seeded >/dev/null 2>&1; rc_seeded=$?
echo "demo without change rc=$rc_clean ; with change rc=$rc_seeded ; tests: $tests"
rm -rf $wt/_build
for p in $ids; do
  s=$(date +%s); VERIF_REPO=$wt timeout 1500 /verif/check $p > /tmp/seedcheck_$(basename $dir)_$p.out 2>&1; rc=$?; e=$(date +%s)
  echo "check $p rc=$rc wall=$((e-s))s: $(grep -c '^VIOLATION' /tmp/seedcheck_$(basename $dir)_$p.out) violations, $(grep -c '^INCONCLUSIVE' /tmp/seedcheck_$(basename $dir)_$p.out) inconclusive"
  grep -m3 "detail:" /tmp/seedcheck_$(basename $dir)_$p.out | cut -c1-220
done
