#!/bin/bash
# usage: tools/runall.sh [tier] [ids...]   -- runs the registered checks sequentially and prints rc / wall per property
cd "$(dirname "$0")/.."
tier=${1:-quick}; shift
ids="$@"
[ -z "$ids" ] && ids=$(python3 -c "import json; print(' '.join(c['property_id'] for c in json.load(open('MANIFEST.json'))['checks']))")
for p in $ids; do
  s=$(date +%s)
  timeout ${RUNALL_TIMEOUT:-1500} ./check $p --tier $tier > /tmp/runall_$p.out 2>&1; rc=$?
  e=$(date +%s)
  echo "$p rc=$rc wall=$((e-s))s $(grep -c '^VIOLATION' /tmp/runall_$p.out) violations, $(grep -c '^KNOWN-FINDING' /tmp/runall_$p.out) known, $(grep -c '^INCONCLUSIVE' /tmp/runall_$p.out) inconclusive"
done
