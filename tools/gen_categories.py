#!/usr/bin/env python3
"""gen_categories.py <repo> <outdir>: regenerates categories.h (X-macro over every leaf category of
<repo>/include/ipr/node-category) so that the C06/C14 harnesses follow the current tree."""
import sys, re, os
repo, out = sys.argv[1], sys.argv[2]
names = []
for l in open(os.path.join(repo, 'include/ipr/node-category')):
    m = re.match(r'\s*([A-Za-z_][A-Za-z_0-9]*)\s*,', l)
    if m and m.group(1) != 'Unknown': names.append(m.group(1))
hooks = set(re.findall(r'virtual void visit\(const (\w+)&\)', open(os.path.join(repo, 'include/ipr/interface')).read()))
skipped = [n for n in names if n not in hooks]
names = [n for n in names if n in hooks]          # categories that have an interface class with a Visitor hook
with open(os.path.join(out, 'categories.h'), 'w') as f:
    f.write('// generated from include/ipr/node-category by tools/gen_categories.py\n#define VP_NCATEGORIES %d\n#define VP_CATEGORIES(X) \\\n' % len(names))
    f.write(' \\\n'.join('   X(%s)' % n for n in names) + '\n')
print(len(names), 'categories; without interface/hook:', skipped)
