#!/usr/bin/env python3
"""Regenerates /verif/MANIFEST.json from the table below (kept in one place so that it stays valid)."""
import json, os
ROOT = os.path.dirname(os.path.dirname(os.path.abspath(__file__)))
ids = [json.loads(l)['id'] for l in open(os.path.join(ROOT, 'properties.jsonl'))]
TECH = 'bounded symbolic execution of the clang-14 LLVM IR of the real sources (own path-forking executor, engine S), assertions and branch feasibility decided by z3; counterexamples replayed on the g++ build'
NOTE = 'Trusted: clang-14 -O1 lowering, engine S (validated on every run by concrete differential runs against the native build), z3, the environment models listed in the evidence (operator new/delete never fail; libstdc++ out-of-line functions modelled). Nothing is claimed outside the bounds recorded in the evidence.'
CLAIMED = {
 'C20': ('4 C20', 'Decides the sequential non-interference lemma, not schedules: for every factory of the zoo used on Lexicon A while a populated Lexicon B exists, every load and store executed is classified by the engine (store to a global or to B-owned storage, load from a non-constant global or from B, static-init guard => violation), and B is unchanged afterwards. Counterexamples are replayed with two threads under ThreadSanitizer. Interleavings themselves are outside the claim.'),
 'C05': ('4 C05', 'For every factory of the zoo: the returned objects are fingerprinted through every accessor, the same store is grown past three capacity doublings (and, thorough, every other factory is used once), fingerprints recomputed through the original references after every step; ten explicit additions to each growing container; generative constructors yield pairwise distinct nodes. Relocation or release shows up as a checked-access violation at the first re-read.'),
 'C19': ('4 C19', 'For every factory of the zoo and for a populated unit: construct, use, destroy units/module/Lexicon in the prescribed order, twice per path; the allocation table of the engine must be empty for the window (leaks reported with allocating function), no double free / interior free; all accesses of all harnesses of all properties are checked accesses.'),
 'C02': ('4 C02', 'One path family per factory of the implementation (zoo.h, ~135 factory cases covering ~250 overloads): operands picked symbolically (two distinct candidates per argument), every enumerator/flag/level/location/qualifier argument a full-width symbolic value, every documented accessor and alias compared with the argument given; optional parts absent until set.'),
 'C06': ('4 C06', 'Every Node-derived object of the zoo: category code, accept() dispatch recorded by a visitor overriding all hooks, default forwarding to the nearest abstract super-category computed independently with std::is_base_of, view<K> for every leaf category K (list regenerated from node-category each run).'),
 'C09': ('4 C09', 'Every expression-yielding factory of the zoo: kind-fixed, borrowed or given type for symbolically picked operands; logic_error where nothing was given; product types of scopes / parameter lists / expression lists re-read after each of K additions.'),
 'C14': ('4 C14', 'Accessor sweep over every object of the zoo (about 190 accessor names probed per interface class), sequences indexed with a fully symbolic 64-bit index for 12 implementations, checked pointers: outcome is a valid result or a logic_error; every memory access of every path is a checked access in the engine (null / out of bounds / freed / dead stack).'),
 'C07': ('4 C07', 'Declaration histories of length K (quick 4, thorough 5) over 3x3 (name,type) pairs covering all eight declaration kinds, with a shadow model checked after every step (entry order, product type, name lookup, selection by type, name/type/master/decl_set of every declaration); homogeneous scopes with 0..3 members.'),
 'C12': ('4 C12', 'Histories of K region-opening operations (13 constructs) under symbolically chosen parents (arbitrary depth and creation order within K; quick 3, thorough 4): enclosing/owner/global/outward walk; handler region shape; member home regions, fully symbolic nesting level, positions; units and modules.'),
 'C01': ('4 C01', 'Two requests to every type constructor over address-sorted operand pools, long and short request forms chosen symbolically; mixed-constructor histories; normal forms with a symbolic linkage spelling; products/sums through warehouses and caller-owned sequences with symbolic lengths: same node <=> same canonical arguments on every path. Tree shapes under longer histories are C08.'),
 'C03': ('4 C03', 'Interning histories of words with fully symbolic bytes (all 256 values) and boundary lengths, symbolic hash values; pool roll-over and oversize paths with the cursor placed near the pool end; arena arithmetic for symbolic lengths; reserved-word binary search vs linear scan for one fully symbolic word up to 18 bytes.'),
 'C04': ('4 C04', 'Two requests (and request/other/request histories) to every name and atom constructor, String- and word-keyed, make_ and get_ forms; two symbolic spellings for word-keyed constructors; one fully symbolic word up to 18 bytes against every Identifier reachable through the Lexicon.'),
 'C10': ('4 C10', 'Singletons and named accessors exhaustively; inverse pair decompose(union S)=S for every subset on sliding windows (quick 3x2^6 x2 backgrounds, thorough all 2^18) and all 2^3 qualifier subsets; | & ^ implies and the per-bit membership lemma with operands symbolic over all 64 bits (single z3 queries); unknown names refused for a symbolic non-basic word.'),
 'C11': ('4 C11', 'Empty set refused for a fully symbolic 64-bit qualifier set; three nested qualification requests with symbolic non-empty sets over picked base types: main variant never qualified, result is the node of the union, independent of order/grouping.'),
 'C13': ('4 C13', 'All 26+5+2 constants exhaustively (spelling, self-description, 325 distinct pairs, two Lexicons) and the spelling->node routes for one fully symbolic word of up to 18 bytes (every reserved word and every near miss is inside the symbolic space).'),
 'C15': ('4 C15', 'Every derived interface operation listed by the property is compared with its defining primitives on the same node, for all sizes 0..3 of every Sequence implementation, 0..2 handlers, set/unset defaults, and symbolic spellings for the equality operators; z3 decides every assertion on every path.'),
 'C16': ('4 C16', 'Elementary substitutions over all (parameter, value, query) picks and general substitutions over all binding histories of length K (quick 4, thorough 6) incl. rebinding, compared with a last-binding shadow map after every step.'),
 'C08': ('4 C08', 'Every insertion history up to N keys (all weak orderings, duplicates included) for both tree flavours and three comparators, plus one inductive step from every valid tree on a height-H skeleton: all red-black, BST, parent-link, height, find/insert identities hold on every path; z3 decides every branch and assertion. quick N=5,H=3; thorough N=7/6,H=4.'),
}
NA = { }
checks = []
for i in ids:
    if i in CLAIMED:
        ref, text = CLAIMED[i]
        checks.append(dict(property_id=i, quick_cmd='./check %s --tier quick' % i, thorough_cmd='./check %s --tier thorough' % i,
                           evidence_file='evidence/%s.json' % i, replay_cmd_template='./check %s --replay {path}' % i, engine='engine-S',
                           level_claimed=dict(category='model_checking', text=text, design_ref='DESIGN.md section ' + ref), level_note=NOTE, technique=TECH))
m = dict(version=1,
         setup_cmd='./setup.sh',
         hooks=dict(guard='IPR_VERIF', enable='no source hook is needed: checks compile harness translation units that #include /repo/src/*.cxx (unity include) with clang++-14 -emit-llvm and g++', 
                    baseline_off_cmd='cmake -G Ninja -S /repo -B /repo/_build >/dev/null && cmake --build /repo/_build >/dev/null && ctest --test-dir /repo/_build -j8 --timeout 900',
                    source_commits=[], add_only=True),
         engines=[dict(name='engine-S', path='engine/', serves_properties=sorted(CLAIMED), kind_free_text='own LLVM-IR path-forking symbolic executor (Python) with z3 as the deciding solver; harness TUs in harness/')],
         checks=checks,
         notes='See DESIGN.md. exit 2 of a check = inconclusive (bound hit / solver unknown / validation mismatch), never reported as success.',
         not_applicable=[dict(property_id=i, reason=NA.get(i, 'check under construction; not claimed yet')) for i in ids if i not in CLAIMED])
json.dump(m, open(os.path.join(ROOT, 'MANIFEST.json'), 'w'), indent=1)
print('claimed', sorted(CLAIMED), 'n/a', len(m['not_applicable']))
