#!/bin/bash
# usage: tools/seedsweep.sh [out-file] [seed-dir ...]   -- re-confirms every seeded change against the current /repo HEAD and the current checks
# (fresh scratch worktree per seed: applies, builds, tests pass, demo 0 / 1, then the property's own check); one line per seed.
out=${1:-/verif/seeded/SWEEP.txt}; shift
seeds="$@"; [ -z "$seeds" ] && seeds=$(ls -d /verif/seeded/C*-* | sort)
: > $out
for d in $seeds; do
  p=$(basename $d | cut -d- -f1)
  r=$(/verif/tools/seedcheck.sh $d $p 2>&1)
  demo=$(echo "$r" | grep -o "demo without change rc=[0-9]* ; with change rc=[0-9]*")
  tests=$(echo "$r" | grep -o "[0-9]* passed" | head -1)
  chk=$(echo "$r" | grep -o "check $p rc=[0-9]* wall=[0-9]*s: [0-9]* violations, [0-9]* inconclusive")
  echo "$(basename $d) | $demo | tests $tests | $chk" >> $out
done
echo SWEEP-DONE >> $out
