#!/bin/bash
# usage: tools/seedin.sh <round> <property-id> [check ids...]   -- takes a sub-agent's deliverables from /tmp/seed<round>_<id>, files them as
# seeded/<id>-<round>, removes the agent's scratch worktree and confirms / runs the checks through seedcheck.sh
r=$1; p=$2; shift; shift; ids="${@:-$p}"
src=/tmp/seed${r}_$p; dst=/verif/seeded/$p-$r
mkdir -p $dst && cp $src/patch.diff $src/demo.cxx $src/meta.json $dst/ || exit 2
# keep only the hunks that touch the library sources (a scratch worktree may carry build output)
python3 - $dst/patch.diff <<'PY'
import sys,re
p=sys.argv[1]; s=open(p,errors='replace',newline='').read()      # newline='': some sources have CRLF line ends, which the patch must keep
parts=re.split(r'(?m)^(?=diff --git )',s)
keep=[x for x in parts if x.startswith('diff --git') and re.match(r'diff --git a/(include|src)/',x)]
open(p,'w',newline='').write(''.join(keep))
PY
git -C /repo worktree remove --force /tmp/wt${r}_$p 2>/dev/null; rm -rf /tmp/wt${r}_$p
/verif/tools/seedcheck.sh $dst $ids
