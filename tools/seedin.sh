#!/bin/bash
# usage: tools/seedin.sh <round> <property-id> [check ids...]   -- takes a sub-agent's deliverables from /tmp/seed<round>_<id>, files them as
# seeded/<id>-<round>, removes the agent's scratch worktree and confirms / runs the checks through seedcheck.sh
r=$1; p=$2; shift; shift; ids="${@:-$p}"
src=/tmp/seed${r}_$p; dst=/verif/seeded/$p-$r
mkdir -p $dst && cp $src/patch.diff $src/demo.cxx $src/meta.json $dst/ || exit 2
git -C /repo worktree remove --force /tmp/wt${r}_$p 2>/dev/null; rm -rf /tmp/wt${r}_$p
/verif/tools/seedcheck.sh $dst $ids
